"""C19: configuration loading is total and accepted configurations are safe to serve
(spec/ConfGrammar.tla, ConfTrace.tla)."""
import json, os, re
from common import *
import conf_base


def add_site(lines):
    out = []
    for l in lines:
        e = json.loads(l)
        if e.get("ev") in ("load", "serve") and e.get("outcome") not in ("ok", "err"):
            d = e.get("detail") or ""
            m = re.search(r"panicked at ([^\s:]+):\d+:\d+:\s*(.*)", d, re.S)
            if m:
                f = m.group(1).split("/src/")[-1]
                msg = re.sub(r"\d+", "N", m.group(2).strip().splitlines()[0] if m.group(2).strip() else "")[:60]
                e["outcome"] = "%s@%s:%s" % (e["outcome"], f, msg)
        out.append(json.dumps(e) + "\n")
    return out


def groff(text):
    text = re.sub(r"\\f[BIPR]", "", text)
    return text.replace("\\-", "-").replace("\\\\", "\\")


def examples():
    """the documents the manual and the shipped example file present as examples"""
    out = []
    shipped = open("/repo/erbium.conf.example").read()
    out.append(("erbium.conf.example", shipped))
    man = open("/repo/man/erbium.conf.5").read()
    blocks = re.findall(r"^\.EX\n(.*?)^\.EE", man, re.S | re.M)
    for i, b in enumerate(blocks):
        b = groff(b).replace("the-contents-of-the-top-level-addresses-field", "192.0.2.0/24, 2001:db8::/64")
        out.append(("erbium.conf.5 example %d" % (i + 1), b))
    # the commented sections of the shipped file are examples too: uncomment one section at a time
    head = shipped.split("### DNS search path")[0]
    sections = re.split(r"^(?=### )", shipped, flags=re.M)
    for s in sections[1:]:
        title = s.splitlines()[0]
        if title.startswith("### Minimal"):
            continue
        body = []
        for line in s.splitlines()[1:]:
            if line.startswith("##") or not line.startswith("#"):
                continue
            body.append(line[2:] if line.startswith("# ") else line[1:])
        text = "\n".join(body).replace("the-contents-of-the-top-level-addresses-field", "192.0.2.0/24, 2001:db8::/64")
        if text.strip():
            out.append(("erbium.conf.example section '%s' uncommented" % title.strip("# "), head + "\n" + text + "\n"))
    return out


SPECIAL = ["", "~", "[]", "3", "a", "{", "}", "---\n---\n", "a: &x [1]\nb: *x\n", "a: &x [*x]\n", "\t\ta: 1\n", "? [a]\n: b\n", "a: !!binary x\n", "﻿addresses: []\n",
           "addresses: [" * 50, "[" * 1000, "[" * 100000, "{a: " * 1000, "addresses:\n" + " - 192.0.2.0/24\n" * 2000, "a: |\n  " + "x" * 100000 + "\n", "\x00", "addresses: [\x00]\n",
           "addresses: 192.0.2.0/24\n", "addresses: [192.0.2.0/24]\naddresses: [198.51.100.0/24]\n", "dhcp-policies: [{policies: [{policies: [{policies: []}]}]}]\n",
           "dhcp-policies: " + "[{policies: " * 200 + "[]" + "}]" * 200 + "\n"]


def mutations(rng, name, text, n):
    """byte-level mutations of an example document"""
    out = []
    lines = text.splitlines(keepends=True)
    real = [i for i, l in enumerate(lines) if l.strip() and not l.lstrip().startswith("#")]
    for i in real:
        out.append(("delete line %d" % i, "".join(lines[:i] + lines[i + 1:])))
        out.append(("truncate inside line %d" % i, "".join(lines[:i]) + lines[i][: max(1, len(lines[i]) // 2)]))
        out.append(("indent line %d" % i, "".join(lines[:i]) + "  " + lines[i] + "".join(lines[i + 1:])))
        out.append(("dedent line %d" % i, "".join(lines[:i]) + lines[i].lstrip() + "".join(lines[i + 1:])))
    b = bytearray(text.encode())
    for k in range(n):
        m = bytearray(b)
        for _ in range(rng.randint(1, 3)):
            j = rng.randrange(len(m))
            op = rng.randrange(4)
            if op == 0:
                m[j] = rng.choice(b"0123456789/:.-[]{},#&*!|>'\"%@` \n\t\x00\xff")
            elif op == 1:
                del m[j]
            elif op == 2:
                m.insert(j, rng.choice(b"0123456789/:.-[]{},# \n"))
            else:
                # a digit run becomes a boundary number
                mm = list(re.finditer(rb"\d+", bytes(m)))
                if mm:
                    x = rng.choice(mm)
                    m[x.start():x.end()] = rng.choice([b"0", b"255", b"256", b"33", b"129", b"65536", b"4294967296", b"99999999999999999999", b"-1"])
        out.append(("bytes %d" % k, bytes(m).decode("utf-8", "replace")))
    return [("%s: %s" % (name, w), t) for w, t in out]


def _empty(run):
    p = run.path("empty.ndjson")
    open(p, "w").close()
    return p


def check(pid, tier):
    run = Run(pid, tier)
    try:
        build_harness()
        cases, st = tlc_enumerate(run, "ConfGrammar", "ConfGrammar.cfg", workers=4)
        run.mc["states"] += st["states"]
        run.mc["transitions"] += st["transitions"]
        # the grammar and the base document must describe the same positions
        doc = conf_base.base()
        fields = {c["path"] for c in cases}
        for p in fields:
            try:
                conf_base.resolve(doc, p)
            except (KeyError, IndexError, ValueError):
                raise ToolError("ConfGrammar position %s does not exist in the base document" % p)
        uncovered = [p for p in conf_base.leaves(doc) if p not in fields and not any(p.startswith(f + "/") and False for f in fields)]
        ngrammar = len(cases)
        if not run.thorough:
            # every position and every literal stays; the 0..255 prefix-length sweeps are thinned to the boundary neighbourhoods (and /8../15 pools, which take seconds per request, are left to the thorough tier)
            def keep(c):
                m = re.match(r'"(?:192\.0\.2\.0|2001:db8::|0\.0\.0\.0)/(\d+)"$', c["lit"])
                if not m:
                    return True
                n = int(m.group(1))
                return n <= 7 or 22 <= n <= 34 or 62 <= n <= 66 or 94 <= n <= 98 or 126 <= n <= 130 or n >= 254 or n % 16 == 0
            cases = [c for c in cases if keep(c)]
        plan = [{"id": "base", "yaml": conf_base.emit(doc), "gen": {"k": "base", "what": "base document of the grammar"}}]
        for name, text in examples():
            plan.append({"id": "ex:" + name, "yaml": text, "gen": {"k": "example", "what": name}})
        for i, c in enumerate(cases):
            plan.append({"id": "g%d" % i, "yaml": conf_base.render(c), "gen": dict(c, k="grammar")})
        for i, t in enumerate(SPECIAL):
            plan.append({"id": "s%d" % i, "yaml": t, "gen": {"k": "special", "what": t[:40]}})
        nm = 0
        for name, text in examples()[:3]:
            for w, t in mutations(run.rng, name, text, 150 if not run.thorough else 6000):
                plan.append({"id": "m%d" % nm, "yaml": t, "gen": {"k": "mutation", "what": w}})
                nm += 1
        cf = run.path("plan.ndjson")
        open(cf, "w").write("".join(json.dumps(c) + "\n" for c in plan))
        tf = run.path("conf.ndjson")
        drive(run, "conf", ["--cases", cf, "--out", tf, "--timeout", 180], timeout=6 * 3600)
        lines = add_site(open(tf).readlines())
        open(tf, "w").write("".join(lines))
        idf = run.path("ids.ndjson")
        open(idf, "w").write("".join(json.dumps({"id": c["id"]}) + "\n" for c in plan))
        first = json.loads(lines[0])
        if first["id"] != "base" or first["outcome"] != "ok":
            raise ToolError("the base document of the grammar does not load (%s): the grammar cases would all be rejected for the wrong reason" % first.get("detail"))
        rep = tlc_trace(run, "ConfTrace", "ConfTrace.cfg", tf, env={"PLAN": idf}, tag="fn", timeout=3600)
        if rep["missing"]:
            raise ToolError("%d planned configurations were not loaded" % rep["missing"])
        record_violations(run, pid, rep["viol"], lines, trace_name="conf", max_prefix=1)
        # ---- service level: DNS answers queries with every accepted configuration that touches routing or access
        accepted = {json.loads(l)["id"] for l in lines if '"ev": "load"' in l and json.loads(l)["outcome"] == "ok"}
        dnsplan = [c for c in plan if c["id"] in accepted and (c["gen"].get("path", "").split("/")[0] in ("dns-routes", "acls", "addresses", "dns-servers") or c["gen"]["k"] in ("base", "example"))]
        if not run.thorough:
            # everything under dns-routes always; the rest (ACLs, addresses) is sampled
            must = [c for c in dnsplan if c["gen"].get("path", "").startswith("dns-routes") or c["gen"]["k"] in ("base", "example")]
            rest = [c for c in dnsplan if not (c["gen"].get("path", "").startswith("dns-routes") or c["gen"]["k"] in ("base", "example"))]
            dnsplan = must + run.rng.sample(rest, min(len(rest), 80))
        df = run.path("dnsplan.ndjson")
        open(df, "w").write("".join(json.dumps(c) + "\n" for c in dnsplan))
        dt = run.path("dns-trace.ndjson")
        p = drive(run, "rig", ["conf", "--cases", df, "--out", dt], timeout=7200, check=False)
        dl = open(dt).readlines() if os.path.exists(dt) else []
        started = [json.loads(l)["id"] for l in dl if '"dnsstart"' in l]
        done = {json.loads(l)["id"] for l in dl if '"ev":"dns"' in l}
        if p.returncode != 0 and not started:
            raise ToolError("rig conf did not start (exit %s): %s" % (p.returncode, (p.stderr or "")[-400:]))
        for i in started:
            if i not in done:
                c = [x for x in dnsplan if x["id"] == i][0]
                dl.append(json.dumps({"ev": "dns", "id": i, "gen": c["gen"], "alive": False, "panics": 0, "replies": 0, "yaml": c["yaml"],
                                      "detail": "the process hosting the DNS service died (exit %s): %s" % (p.returncode, (p.stderr or "")[-300:].replace("\n", " "))}) + "\n")
        open(dt, "w").write("".join(dl))
        rep2 = tlc_trace(run, "ConfTrace", "ConfTrace.cfg", dt, env={"PLAN": _empty(run)}, tag="dns")
        record_violations(run, pid, rep2["viol"], dl, trace_name="confdns", max_prefix=1)
        stats = dict(rep["stats"])
        stats["dns"] = rep2["stats"]["dns"]
        slow = sorted(((json.loads(l).get("ms", 0), json.loads(l)["id"], json.loads(l)["gen"].get("path", ""), json.loads(l)["gen"].get("lit", "")) for l in lines), reverse=True)[:8]
        run.notes.append("slowest steps (ms, id, position, replacement): %s" % json.dumps(slow))
        cov = {
            "evaluations": stats["loads"] + stats["served"], "traces_validated_against_impl": 2, "events_validated": len(lines),
            "states": run.mc["states"], "transitions": run.mc["transitions"],
            "distinct_nontrivial": len({c["yaml"] for c in plan}),
            "rule": "case = (position of the base document that uses every key of erbium.conf(5), replacement) enumerated by TLC from ConfGrammar (%d cases, %d in this tier): 22 generic replacements (missing key, null, wrong types, empty/nested collections, non-string keys, 70 kB strings) + the boundary values of the position's type (prefix lengths 0..255, 40 duration spellings, addresses of both families, socket addresses, domains up to 300 octets, URLs up to 70 kB, option lists above 255 octets); plus %d documented examples, %d special documents (empty, aliases, nesting up to 100000, NUL) and %d byte-level mutations of the examples; every accepted configuration serves 60 DHCP requests, 2 advertisements per interface and 28 ACL decisions; distinct by text" % (ngrammar, len(cases), len(examples()) + 1, len(SPECIAL), nm),
            "samples": [json.loads(lines[0]), json.loads(lines[len(lines) // 2])],
            "counters": stats, "grammar_positions": len(fields), "base_positions_without_grammar_entry": uncovered, "exhaustive": False,
        }
        rc = finish(run, "exploration", cov, [
            "load and serve run in a child process with a 3 GiB address-space limit and 180 s per step (one request per step): abort (stack overflow, allocation failure) and hang are observed outcomes",
            "serving = handle_pkt on 60 requests (5 receiving addresses x 2 clients x 6 message shapes, all options requested), radv::verif_build_ra for every configured interface, acl::require_permission for 7 clients x 4 permissions; DNS routing with the accepted configuration is exercised through the DNS rig",
            "whether a configuration SHOULD be accepted is not judged here (C02/C11/C17 do that), only totality and safety",
        ])
    except ToolError as e:
        log("TOOL-ERROR: %s" % e)
        return 2
    finally:
        run.cleanup()
    return rc
