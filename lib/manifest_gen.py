#!/usr/bin/env python3
"""Regenerates /verif/MANIFEST.json from the table below (single source)."""
import json, os, subprocess
VERIF = os.path.dirname(os.path.dirname(os.path.abspath(__file__)))

TV = "TLC model checking of the TLA+ module + TLC trace validation of traces recorded from the real code (deterministic follower evaluating the property's step predicate on every event)"
CHECKS = {
 "C01": dict(level="model_checking", design="4/C01", technique="TLA+ MC_Lease exhaustive (TLC) + TLC trace validation (LeaseTrace) of scenarios replayed into Pool::allocate_address, into dhcp::handle_pkt, and through the real DhcpService on a veth pair",
   text="TLC proves P01 on every transition of MC_Lease (all interleavings of 2-3 clients x 3 addresses x 4 pools x ticks x restarts, unbounded time), and the same predicate C01Step is evaluated by TLC on every event of hundreds of histories replayed into the real lease store (directed, TLC-simulated and seeded random, incl. boundary seconds, pool changes, restarts).",
   note="bounded constants in MC; implementation bound by trace validation only for the histories driven; three levels: Pool, handle_pkt, and the running service (frames on a veth pair, live configuration swap, the service's own lease file); harness projection (own SQL read of the lease table, timestamp shifting as clock) trusted"),
 "C09": dict(level="model_checking", design="4/C09", technique="TLA+ MC_Lease exhaustive (TLC) + TLC trace validation (LeaseTrace)",
   text="C09Step (keep held address / named held address / refusal only on exhaustion) is an action property of MC_Lease and is evaluated on every recorded allocation step of the real Pool and handle_pkt; the generator is biased to roaming clients, shrinking pools and one-free-address pools.",
   note="as C01; the open finding C09-1 is also a named disjunct (Known_C09_1) of the model so MC documents the deviation"),
 "C10": dict(level="model_checking", design="4/C10", technique="TLA+ MC_Lease exhaustive (TLC) + TLC trace validation (LeaseTrace)",
   text="C10Step (lease time carried, within [min,max], stored record covers t0+L and has length L) checked on all model transitions and on every reply recorded from handle_pkt (option 51) and Pool (returned lease) under renewal rhythms 1, L/2, L-1, L, L+1.",
   note="t = instant before the call (weakest reading); pkt level uses the default bounds 300 s / 86400 s"),
 "C13": dict(level="model_checking", design="4/C13", technique="TLA+ MC_Lease exhaustive (TLC) + TLC trace validation (LeaseTrace), all 256 message types enumerated",
   text="C13Step (gate on type/server-id, store untouched without reply, only the assigned row touched, header echo and server-id) on all model transitions and on every recorded handle_pkt call, with every message type 0..255 and none, with/without/foreign server-id, on populated tables.",
   note="table snapshots before/after each message are read by the harness's own SQL"),
 "C18": dict(level="model_checking", design="4/C18", technique="TLA+ DhcpStore exhaustive over all crash points (TLC) + TLC trace validation (StoreTrace) of real opens on every model-reachable file state, restart-equivalence pairs, and SIGKILL at every write syscall (strace injection)",
   text="TLC checks C18a-d on every interleaving of the statement-level open/migrate/allocate step machine with a crash between any two steps, from fresh, pre-versioning, current and newer files; every file state the model reaches is constructed and handed to the real Pool; every scenario is run with and without a restart and the replies compared; the real process is SIGKILLed on entry to each pwrite64/fdatasync/unlink on the database or journal and the file reopened (acknowledged leases present, no partial row).",
   note="SQLite atomic commit assumed in the model, exercised in the SIGKILL runs; process kill, not power loss; the harness constructs and inspects files with its own rusqlite connection"),
 "C20": dict(level="model_checking", design="4/C20", technique="TLC trace validation (LeaseTrace observers Metrics/List) of get_pool_metrics / get_leases after every step of replayed histories; TLC trace validation (LeaseHttpTrace) of GET /api/v1/leases.json and /metrics of the real services after real DHCP exchanges; MC_Lease exhaustive for the store the observers read",
   text="After every step of every replayed history (incl. ticks to expiry-1/expiry/expiry+1 and the empty store) the gauges must equal |expiry>now| and |expiry<=now| for some instant inside the logged call interval and get_leases() must return exactly the stored rows, evaluated by TLC against the follower's table.",
   note="function level (Pool observers) and service level (real DhcpService + http::run, DHCP clients on a veth pair, listing parsed by serde_json, gauges read from /metrics)"),
 "C02": dict(level="model_checking", design="4/C02", technique="TLA+ DhcpPolicy (executable transcription of erbium.conf(5)): TLC checks the C02 clauses on the model over an enumerated family and evaluates Allowed(config, request) for every recorded drain of the real handle_pkt (PolicyTrace)",
   text="TLC exhaustively checks the clauses of C02 on the DhcpPolicy model over a family of configurations x requests, prints each as a case, and then compares, per case, the set of addresses fresh clients can drain from the real loader + handle_pkt (until refusal) with Allowed(config, request) -- both inclusions; default pools of /8../23 prefixes are probed through build_default_config instead of drained.",
   note="policy trees depth<=3, width<=3; prefixes /8../30; the manual-silent cases are not generated; drains above the limit are inconclusive"),
 "C11": dict(level="model_checking", design="4/C11", technique="TLA+ DhcpPolicy!ModelOpts evaluated by TLC for every recorded handle_pkt reply (PolicyTrace) + TLC check of the C11 clauses on the model over an enumerated family",
   text="TLC checks only-requested / null-removes / inner-overrides-outer on the model over an enumerated family, and for each generated (configuration, request) compares the option map of the real reply, projected onto symbolic values by the harness's own RFC encoders, with ModelOpts(config, request).",
   note="value alphabet of two values + null per option over eleven option codes (one of them above 127); empty default search list accepted either way"),
 "C12": dict(level="model_checking", design="4/C12", technique="TLA+ DhcpWire: TLC model-checks the RFC 3396 reference chunking over boundary lengths and validates traces of Dhcp::serialise / dhcppkt::parse / Fragment::new_udp4 / get_broadcast_flag (DhcpWireTrace) and of the frames the real DhcpService puts on a veth pair (DhcpFrameTrace)",
   text="TLC enumerates option multisets over the boundary lengths (0,1,2,254..257,509..512,765,1500), proves the reference chunking carries them and refutes the truncating encoder; every case plus random and decoder-image messages is encoded by the real code, walked by an independent TLV walker and decoded again, and TLC checks stream arithmetic, header and option equality; frames: lengths and both one's-complement checksums recomputed by TLC (incl. directed double-carry payloads); broadcast bit for sampled (quick) or all 65536 (thorough) flag values.",
   note="fidelity decided over projections (walker, splitter, digests) computed by the harness; the destination rule (limited broadcast iff the broadcast bit) is decided on captured frames of the running service"),
 "C04": dict(level="model_checking", design="4/C04", technique="TLA+ DnsWire: TLC model-checks the size-limited emission design over all small size vectors and validates traces of DNSPkt::serialise_with_size (DnsWireTrace); transport limits end-to-end when the DNS rig is available",
   text="TLC checks the C04 clauses on the emission model for every record-size vector (and refutes the count-splice variant), then evaluates them on every response produced by the real serialise_with_size for messages whose unlimited encoding lands at limit-1/limit/limit+1 and far beyond, as parsed by an independent walker.",
   note="function level decides well-formedness/limit/TC/prefix for the encoder; which limit the UDP and TCP listeners pass is covered by the end-to-end rig part"),
 "C06": dict(level="model_checking", design="4/C06", technique="TLA+ DnsCache: exhaustive MC (TLC) of insert/lookup/tick/sweep interleavings + TLC trace validation (DnsCacheTrace) of the cache's own code under tokio's paused clock + TLC trace validation (CacheE2ETrace) of the real DnsService in real time with short TTLs",
   text="P06 (hit only for the same key within the smallest TTL, TTL = original - whole seconds elapsed, miss after expiry) holds on every transition of MC_DnsCache (two keys, TTL vectors with different minima incl. 0, half-second steps, sweeps; unbounded time) and is evaluated on every lookup of hundreds of scenarios driven through the real insert/lookup/expire code with exact virtual time, including TTLs 2^16, 2^31, 2^32-1, upstream replies of every response code and near-miss keys built as wire queries; and on the replies of the real DnsService to names asked again and again in real time (same key, upper case, CD, DO, other type) while their 1..4 s TTLs run out.",
   note="the function-level hook repeats three lines of CacheHandler::handle_query (key construction, insert, lookup); those lines themselves are bound by the service-level part (same and near-miss keys in waves, ages bounded by the event times); name equality read case-insensitively"),
 "C14": dict(level="model_checking", design="4/C14", technique="TLA+ DnsWire (compression-pointer discipline) + TLC trace validation (DnsWireTrace) of DNSPkt::serialise walked by an independent walker and re-decoded by the crate's parser",
   text="For structured messages up to 2000 records / 64 KiB (all name-bearing rdata types, shared suffixes at every depth, suffixes first written around offset 16384) and for mutated byte strings the decoder accepts: TLC checks every compression pointer (backwards, < 16384, to a label start) and the equality of the abstract messages (walker projection of the bytes vs the message built by the harness; crate decoder's result vs original).",
   note="fidelity via projection (walker, digests); beyond 300 records pointer summaries instead of every pointer"),
 "C16": dict(level="model_checking", design="4/C16", technique="TLA+ DnsRateLimit: exhaustive MC (TLC) of check/deplete interleavings (1 and 2 handlers) + TLC trace validation (RateLimitTrace) of the real token bucket under a virtual clock, of the real cookie validation, and of floods of refused queries at the real listener",
   text="TLC proves Bound and Quiet on the bucket model (one handler; two handlers with burst H*B) and refutes the strict bound under the check/deplete race and Quiet when the minimum charge exceeds the capacity; the real bucket is flooded and left idle under a virtual clock and judged against a fixed envelope; cookies issued under 4 keys x 3 client cookies x 4 client/server addresses are presented unchanged/mangled/cross-address under (current, previous) keys and against the live keys.",
   note="envelope 65536 tokens + 4096/s; the two-bucket limiter and the cost function are inline in the listener and bound by the service-level floods (800 queries per source at the real listener from one and from 200 source ports, REFUSED datagrams counted at the client, a quiet source at the end; the cookie exemption: a flood from the source that was issued a server cookie is answered, the same cookie from another address / mangled / without server part is limited)"),
 "C03": dict(level="model_checking", design="4/C03", technique="TLA+ DnsForward (reply assembly, MC with TLC) + TLC trace validation (ForwardTrace) of the real DnsService in a private network namespace against scripted upstreams",
   text="Every query/reply pair of the end-to-end rig is judged by TLC: id, question, QR and rcode of the client's reply and section-wise equality (record order, names expanded, types, classes, rdata; TTL only reduced, equal when uncached) with what the scripted upstream sent, both projected by an independent walker; upstream replies are generated structured messages of all rdata shapes, compressed or not, over UDP and TCP, IPv4 and IPv6 upstreams.",
   note="in-process service in a private namespace (unshare -n -m); real sockets and timers; projections by the harness"),
 "C07": dict(level="model_checking", design="4/C07", technique="TLA+ DnsForward: exhaustive MC (TLC) of concurrent queries x retransmissions x upstream faults incl. liveness under fairness; TLA+ DnsTcpStream: every segmentation of a client's TCP stream of frames (the one-query-per-connection listener is refuted); TLC trace validation (ForwardTrace) of the real DnsService under scripted fault schedules",
   text="TLC checks AtMostOne, Own, Served and MaxTransmissions on every interleaving of 3 concurrent queries (UDP and TCP, 2 upstream ids so collisions are reachable, 3 transmissions, 3 adversary faults: loss, wrong id, TC, duplicates, TCP silence) and the leads-to property under weak fairness; the same predicates are evaluated per query on batches of real concurrent queries over IPv4-only, IPv6-only and dual-stack listeners against upstreams executing drop/duplicate/late/wrong-id/TC/reorder/silent/hang-up schedules, incl. a forced upstream id collision, and clients that pipeline several queries on one TCP connection with the stream cut at arbitrary octets.",
   note="MC bounds: 3 queries, 2 ids, MaxTx 3; the rig uses real timers (retransmission at 0.8 s x 1.5..2.5)"),
 "C08": dict(level="model_checking", design="4/C08", technique="TLA+ Acl (independent transcription): exhaustive MC (TLC) of the model's lemmas over all rule lists <= 1 rule + TLC trace validation (AclTrace, ForwardTrace) of acl::require_permission and of the real DNS listeners",
   text="TLC proves host-bit irrelevance, nesting, mapped-address equivalence, first-match-wins and no-match-no-access on the Acl model, and evaluates Granted(first_match) for every decision of the real require_permission on YAML-loaded rule lists (0..6 rules, v4/v6 prefixes of boundary lengths with and without host bits, unix flag, all permission subsets) x clients (v4, v6, mapped, v4-compatible, loopback, unix) x 4 operations, for real DNS clients on distinct source addresses (rcode, and whether the upstream saw the question, incl. cached names), and for real HTTP clients (TCP on 9 source addresses incl. mapped through a dual-stack listener; unnamed, path-bound and abstract-bound unix clients) on GET /, /metrics and /api/v1/leases.json (403 = refused).",
   note="three bindings: acl::require_permission, the real DNS listeners, the real HTTP API listeners (TCP v4/v6/dual-stack, unix path/abstract) in a private namespace"),
 "C15": dict(level="model_checking", design="4/C15", technique="TLA+ DnsRoute: exhaustive MC (TLC) of permutation/case invariance over small tables + TLC trace validation (ForwardTrace) of the real DnsService with one scripted upstream per route",
   text="TLC proves on the DnsRoute model that the outcome is invariant under permutation of routes and suffixes and under the case of the name, total, and a server failure without route; for generated tables (1..6 routes x 0..4 suffixes, nested/sibling/empty suffixes, some in upper case) in two permutations and names in lower/upper/mixed case with and without RD, the rcode seen by a real client and the upstream that received the question must match DnsRoute!Outcomes.",
   note="each query carries a distinct (name, type) so the receiving upstream can be attributed"),
 "C17": dict(level="model_checking", design="4/C17", technique="TLA+ Radv (what an advertisement must decode to, per erbium.conf(5) and RFC 4861/8106/8781/8910): TLC checks the model's field lemmas (MC_Radv) and derives, per recorded case, the expected advertisement and compares it with the harness's RFC decoding of what the real loader + builder + serialiser produced (RadvTrace)",
   text="For generated interface configurations (every field absent/null/value, lifetimes at every field boundary up to 2^32, 0..16 prefixes with host bits, $self6 substitution, NAT64 lengths, URLs of 0..240 octets) the advertisement built by the real code is decoded by an independent RFC decoder and TLC decides equality with the configuration: header fields, option multiset, per-option content, layout (multiples of 8, reserved bits zero, host bits zero), clamped or rejected when a value does not fit its field.",
   note="function level through the hook radv::verif_build_ra, and service level: the configuration goes live in the running RaAdvService and the advertisement answering a router solicitation is captured on the veth pair; the periodic (unsolicited) sender is not waited for; there is no interleaving to explore, the MC part covers only the arithmetic lemmas of the model"),
 "C05": dict(level="exploration", design="4/C05", technique="TLA+ WireGrammar (the structured input space, enumerated exhaustively by TLC) + TLC trace validation (IngestTrace: outcome in {ok, err}, every planned case fed, valid request still served) of the real decoders/handlers in a child process and of the real DNS service under hostile datagrams, TCP streams and upstream replies",
   text="TLC enumerates the product of (format x item x boundary length x fill x honesty of the declared length), DNS name shapes (self/loops/chains/forward/out-of-bounds pointers, label and name length boundaries) x 15 positions, record types x rdlengths, OPT placements, header fields x boundary values; the harness assembles a consistent packet per case and runs everything the services do with it (decode, logging accessors, handle_pkt, reply framing, cache insert and lookups hours later); plus every truncation and boundary octet at every offset of seed packets and seeded random strings; a stratified sample also goes through the real DNS listeners (UDP, TCP with lying frames), through scripted upstreams, and as frames to the real DHCP, RA and LLDP services on a veth pair, after which valid requests must be answered. Exploration, not proof: the byte-string space is sampled by structure.",
   note="outcomes panic/abort/hang are observed per input in a child process; DHCP/RA/LLDP services are also exercised with frames on a veth pair; the spec part is an input grammar and an outcome predicate, there is no interleaving to model-check"),
 "C19": dict(level="exploration", design="4/C19", technique="TLA+ ConfGrammar (positions x typed replacement alphabets of erbium.conf(5), enumerated exhaustively by TLC) + TLC trace validation (ConfTrace: load in {ok, err with message}, documented examples load, serving with every accepted configuration ends ok, every planned case loaded) of the real loader and handlers in a child process and of the real DNS service",
   text="TLC enumerates every (position, replacement) of a document that uses every key of the manual: 22 generic replacements (missing key, null, wrong types, empty and nested collections) and the boundary alphabet of the position's type (prefix lengths 0..255, 40 duration spellings, addresses, socket addresses, domains, URLs and lists beyond the option size limits); each is rendered, loaded by the real loader, and, when accepted, used to serve 60 DHCP requests, 2 advertisements per interface, 28 ACL decisions and (routing/ACL positions) 5 DNS queries through the live DNS service; plus the manual's and the shipped examples (must load), special documents and byte-level mutations of the examples. Panic, abort (3 GiB) and hang (180 s per request) are observed per step in a child process.",
   note="exploration of a grammar-structured sample; whether an accepted configuration means what the manual says is the business of C02/C11/C17, not of this check"),
}
NOT_APPLICABLE = []

def main():
    hooks = subprocess.run(["git", "-C", "/repo", "log", "--format=%H %s"], stdout=subprocess.PIPE, text=True).stdout.splitlines()
    hook_commits = [l.split()[0] for l in hooks if " verif hook:" in l]
    all_ids = [json.loads(l)["id"] for l in open(os.path.join(VERIF, "properties.jsonl"))]
    checks = []
    for pid in all_ids:
        if pid not in CHECKS:
            continue
        c = CHECKS[pid]
        checks.append({
            "property_id": pid,
            "quick_cmd": "bin/check %s quick" % pid,
            "thorough_cmd": "bin/check %s thorough" % pid,
            "evidence_file": "/verif/evidence/%s.json" % pid,
            "replay_cmd_template": "bin/check %s --replay {path}" % pid,
            "engine": "tlc",
            "level_claimed": {"category": c["level"], "text": c["text"], "design_ref": "DESIGN.md section " + c["design"]},
            "level_note": c["note"],
            "technique": c["technique"],
        })
    na = [x for x in NOT_APPLICABLE]
    claimed = set(CHECKS)
    for pid in all_ids:
        if pid not in claimed and pid not in {x["property_id"] for x in na}:
            na.append({"property_id": pid, "reason": "check not built yet in this round (planned, see DESIGN.md section 4); not claimed"})
    m = {
        "version": 1,
        "setup_cmd": "cd /verif/harness && cp -n /repo/Cargo.lock Cargo.lock; CARGO_NET_OFFLINE=true cargo build --offline",
        "hooks": {
            "guard": "cfg(erbium_verif)",
            "enable": "RUSTFLAGS --cfg erbium_verif via /verif/harness/.cargo/config.toml (the harness crate has path dependencies on /repo/crates/*)",
            "baseline_off_cmd": "cd /repo && cargo test --workspace --no-fail-fast --offline",
            "source_commits": hook_commits,
            "add_only": True,
        },
        "engines": [{"name": "tlc", "path": "/verif/bin/check", "serves_properties": sorted(claimed),
                     "kind_free_text": "TLA+ specifications in /verif/spec checked with TLC (exhaustive MC, -simulate scenario generation, trace validation); Rust harness /verif/harness drives the real crates and records NDJSON traces"}],
        "checks": checks,
        "not_applicable": na,
        "notes": "Exit codes: 0 held (KNOWN-FINDING lines for entries of /verif/known_findings.json), 1 VIOLATION, 2 tool error. See DESIGN.md.",
    }
    json.dump(m, open(os.path.join(VERIF, "MANIFEST.json"), "w"), indent=1)

if __name__ == "__main__":
    main()
