"""C12: DHCP wire format (spec/DhcpWire.tla, DhcpWireTrace.tla)."""
import json
from common import *


def check(pid, tier):
    run = Run(pid, tier)
    try:
        build_harness()
        # model checking of the reference chunking + enumeration of option-length cases
        ov = None if run.thorough else {"MaxOpts": "2"}
        mc = tlc_mc(run, "MC_DhcpWire", "MC_DhcpWire.cfg", workers=4, timeout=600, overrides=ov, coverage=False)
        mc_must_pass(run, mc)
        naive = tlc_mc(run, "MC_DhcpWire", "MC_DhcpWire_naive.cfg", workers=2, timeout=120, coverage=False, tag="naive", expect_violation=True)
        cases, _ = tlc_enumerate(run, "MC_DhcpWire", "MC_DhcpWire.cfg", overrides=ov, tag="enum")
        cf = run.path("cases.ndjson")
        open(cf, "w").write("".join(json.dumps(c) + "\n" for c in cases))
        t1, t2, t3 = run.path("w1.ndjson"), run.path("w2.ndjson"), run.path("w3.ndjson")
        drive(run, "wire", ["dhcp", "--cases", cf, "--out", t1, "--seed", run.seed, "--rand", 400 if not run.thorough else 6000])
        drive(run, "wire", ["frame", "--out", t2, "--seed", run.seed] + (["--all"] if run.thorough else []))
        drive(run, "wire", ["bcast", "--out", t3, "--seed", run.seed] + (["--all"] if run.thorough else []))
        total = {}
        nlines = 0
        samples = []
        for i, t in enumerate((t1, t2, t3)):
            lines = open(t).readlines()
            for j, part in enumerate(chunks(lines, 6000)):
                pf = run.path("part-%d-%d.ndjson" % (i, j))
                open(pf, "w").write("".join(part))
                rep = tlc_trace(run, "DhcpWireTrace", "DhcpWireTrace.cfg", pf, {"Enforce": tla_set([pid])}, tag="tv%d_%d" % (i, j))
                record_violations(run, pid, rep["viol"], part, trace_name="wire%d_%d" % (i, j))
                for k, v in rep["stats"].items():
                    total[k] = total.get(k, 0) + v
                nlines += len(part)
            samples.append(json.loads(lines[min(3, len(lines) - 1)]))
        import dhcp_e2e
        wire = dhcp_e2e.c12_e2e(run, pid)
        cov = {
            "states": run.mc["states"], "transitions": run.mc["transitions"],
            "traces_validated_against_impl": nlines + wire["frames"],
            "evaluations": nlines,
            "distinct_nontrivial": total.get("long", 0) + total.get("zero", 0) + total.get("odd", 0) + total.get("bset", 0),
            "rule": "dhcp_rt: option multisets enumerated by TLC over boundary lengths (0,1,2,254..257,509..512,765,1500) x 4 codes + seeded random multisets + messages from the decoder's image (repeated codes, pads); frame: payload lengths (all 0..1472 in thorough); bcast: flag values (all 65536 in thorough); non-trivial = message with an option >255 or =0 octets, odd payload length, flags with bit 15 set",
            "samples": samples, "counters": total, "service_level": wire,
            "naive_encoder_refuted_by_model": (not naive["ok"]) and naive["violated"] is not None,
            "exhaustive": bool(run.thorough),
        }
        rc = finish(run, "model_checking", cov, [
            "decode/encode fidelity is decided by TLC over projections computed by the harness's own TLV walker, frame splitter and FNV digests (trusted)",
            "messages range over the decoder's image (hlen = |chaddr| <= 16, sname/file without interior NUL, option codes 1..254)",
            "service level: real DhcpService on a veth pair; the frames it sends are captured on the client end and taken apart by the harness's own decoder (checksums recomputed); flags 0, 1, 0x4000, 0x7fff, 0x8000, 0x8001, 0xc000, 0xffff and random values on DISCOVER and REQUEST; DhcpFrameTrace decides destination, checksums, lengths",
        ])
    except ToolError as e:
        log("TOOL-ERROR: %s" % e)
        return 2
    finally:
        run.cleanup()
    return rc
