"""End-to-end DNS checks on the rig (spec/ForwardTrace.tla, DnsForward.tla,
DnsRoute.tla): C03, C07, C15 and the end-to-end parts of C04 and C08."""
import json, os
from common import *


def fnv(b):
    h = 0xcbf29ce484222325
    for x in b:
        h ^= x
        h = (h * 0x100000001b3) & 0xFFFFFFFFFFFFFFFF
    return h % (1 << 30)


def tok(name, qtype=1):
    wire = b"".join(bytes([len(l)]) + l.lower().encode() for l in name) + b"\0"
    return "%d/%d" % (fnv(wire), qtype)


class Ids:
    def __init__(self, rng):
        self.n = 0
        self.rng = rng

    def uniq(self):
        self.n += 1
        return "u%dx%d" % (self.n, self.rng.randrange(10 ** 6))


def q(ids, n, name, **kw):
    d = {"q": n, "id": 1000 + n, "listener": "dual4", "proto": "udp", "name": name, "qtype": 1, "rd": True}
    d.update(kw)
    return d


# ------------------------------------------------------------------ C15 ----
LABELS = ["com", "example", "ads", "www", "net", "internal", "a"]


def rand_suffix(rng):
    base = rng.choice([[], ["com"], ["example", "com"], ["ads", "example", "com"], ["internal", "example", "com"], ["net"], ["example", "net"], ["a", "ads", "example", "com"]])
    return base


def case_variants(rng, s):
    # the same name in lower, upper and mixed case
    return [s, [l.upper() for l in s], ["".join(c.upper() if rng.random() < 0.5 else c for c in l) for l in s]]


def c15_cases(rng, n):
    cases = []
    ids = Ids(rng)
    for ci in range(n):
        nroutes = rng.choice([1, 2, 2, 3, 4, 6])
        routes = []
        for r in range(nroutes):
            sufs = [".".join(rand_suffix(rng)) for _ in range(rng.choice([0, 1, 1, 2, 3, 4]))]
            if rng.random() < 0.3:
                sufs = [s.upper() if rng.random() < 0.5 else s for s in sufs]     # suffixes written in upper case
            kind = rng.choice(["forward", "forward", "nxdomain"])
            routes.append({"suffixes": sufs, "kind": kind, "up": 1 + r % 6})
        names = []
        for _ in range(6):
            base = rand_suffix(rng)
            extra = [rng.choice(LABELS + [ids.uniq()]) for _ in range(rng.choice([0, 0, 1, 1, 2]))]
            names.append(extra + base)
        names += [["com"], [], ["example", "com"]]
        for perm in range(2):
            rs = [dict(r) for r in routes]
            if perm:
                rng.shuffle(rs)
                for r in rs:
                    r["suffixes"] = list(r["suffixes"])
                    rng.shuffle(r["suffixes"])
            queries = []
            k = 0
            for nm in names:
                for v in case_variants(rng, nm)[: (3 if perm == 0 else 1)]:
                    k += 1
                    # a distinct type per query: the (name, type) pair identifies the query at the upstream
                    listener = rng.choice(["dual4", "dual6", "v6", "v4"])
                    dst = {"dual4": rng.choice(["127.0.0.1", "127.0.0.2"]), "dual6": rng.choice(["::1", "fd00::10:1"])}.get(listener)
                    queries.append(q(ids, k, v, rd=(k % 7 != 0), listener=listener, qtype=256 + k, **({"dst": dst} if dst else {})))
            cases.append({"routes": rs, "acls": None, "scripts": {"default": {"kind": "ok", "ttl": 0}}, "queries": queries, "meta": {"kind": "c15", "table": ci, "perm": perm}})
    return cases


# ------------------------------------------------------------------ C07 ----
def c07_cases(rng, nbatches, batch, silent):
    cases = []
    ids = Ids(rng)
    for b in range(nbatches):
        scripts = {"default": {"kind": "ok", "ttl": 0}}
        queries = []
        for k in range(1, batch + 1):
            name = [ids.uniq(), "c07", "example"]
            kind = rng.choice(["ok", "ok", "ok", "wrongid", "tc", "dup", "late"])
            drops = rng.choice([0, 0, 0, 1, 1, 2, 3])
            proto = rng.choice(["udp", "udp", "udp", "tcp"])
            sc = {"kind": kind, "drops": drops if proto == "udp" else 0, "ttl": 0, "delay_ms": rng.choice([100, 400, 900])}
            if rng.random() < 0.15:
                sc["tcp_kind"] = "hold"
            if rng.random() < 0.08:
                # the upstream hangs up on the TCP connection (with or without the beginning of a reply): everybody waiting
                # on that connection gets a server failure, and the next query opens a new connection
                kind, sc = "close", {"kind": "tc", "drops": 0, "ttl": 0, "tcp_kind": rng.choice(["close", "halfclose"])}
            scripts[tok(name)] = sc
            # worst case wait: 3 dropped transmissions = 0.8 + ~2 + ~5 s of timers (+ jitter)
            wait = 4000 + (0 if drops == 0 else 2500 if drops == 1 else 9000 if drops == 2 else 26000)
            listener = rng.choice(["v4", "v6", "dual4", "dual6"])
            # the dual-stack listener is reachable on every local address: the reply must come from the one queried
            dst = {"dual4": rng.choice(["127.0.0.1", "127.0.0.2", "127.53.0.9"]), "dual6": rng.choice(["::1", "fd00::10:1", "fd00::20:3"])}.get(listener)
            kw = {"dst": dst} if dst else {}
            queries.append(q(ids, k, name, proto=proto, listener=listener, upkind=kind, drops=sc["drops"], wait_ms=wait,
                             adv=rng.choice([-1, 1232, 4096]), **kw))
        if silent and b == 0:
            for j in range(silent):
                k = batch + 1 + j
                name = [ids.uniq(), "silent", "example"]
                scripts[tok(name)] = {"kind": "silent", "tcp_kind": "silent"}
                queries.append(q(ids, k, name, proto="udp", listener=rng.choice(["v4", "dual6"]), upkind="silent", wait_ms=58000))
        # several queries on one client TCP connection, frames back to back or chopped into pieces that straddle them
        for pipe, chop in ((1, 0), (2, 1), (3, 7), (4, 64)):
            for _ in range(rng.choice([2, 3, 5])):
                name = [ids.uniq(), "pipe", "example"]
                kind = rng.choice(["ok", "ok", "late", "dup"])
                scripts[tok(name)] = {"kind": kind, "drops": 0, "ttl": 0, "delay_ms": rng.choice([50, 300])}
                queries.append(q(ids, len(queries) + 1, name, proto="tcp", listener="dual4", upkind=kind, drops=0, wait_ms=6000, adv=1232, pipe=pipe, chop=chop))
        # a TCP client that keeps its connection open after its answer, and others arriving meanwhile on the same listener
        name = [ids.uniq(), "holder", "example"]
        scripts[tok(name)] = {"kind": "ok", "ttl": 0}
        queries.append(q(ids, len(queries) + 1, name, proto="tcp", listener="v4", upkind="ok", drops=0, wait_ms=4000, hold_ms=3500))
        for j in range(3):
            name = [ids.uniq(), "meanwhile", "example"]
            scripts[tok(name)] = {"kind": "ok", "ttl": 0}
            queries.append(q(ids, len(queries) + 1, name, proto="tcp", listener="v4", upkind="ok", drops=0, wait_ms=2500, sleep_before_ms=(600 if j == 0 else 0)))
        # a held TCP reply is released by the next query on the connection: close every batch with a plain TCP query
        name = [ids.uniq(), "flush", "example"]
        queries.append(q(ids, len(queries) + 1, name, proto="tcp", wave=1))
        if b == 0:
            # (i) a TCP answer that takes 7 s, then more TCP queries to the same upstream
            name = [ids.uniq(), "slowtcp", "example"]
            scripts[tok(name)] = {"kind": "ok", "tcp_kind": "late", "tcp_delay_ms": 7000, "ttl": 0}
            queries.append(q(ids, len(queries) + 1, name, proto="tcp", wave=2, wait_ms=12000))
            for j in range(3):
                name = [ids.uniq(), "aftertcp", "example"]
                queries.append(q(ids, len(queries) + 1, name, proto="tcp", wave=3, sleep_before_ms=(1500 if j == 0 else 0)))
            # (ii) an answer whose authority/additional TTLs are shorter than its answer TTL, asked again after they ran out
            for ttls in ([600, 1, 600], [600, 600, 1], [1, 600, 600]):
                name = [ids.uniq(), "mixedttl", "example"]
                scripts[tok(name)] = {"kind": "ok", "reply_seed": rng.randrange(1 << 30), "reply_nrec": 9, "ttls": ttls}
                queries.append(q(ids, len(queries) + 1, name, wave=2))
                queries.append(q(ids, len(queries) + 1, name, wave=3, cached=True, sleep_before_ms=800))
        cases.append({"routes": [{"suffixes": [""], "kind": "forward", "up": 1 + b % 6}], "acls": None, "scripts": scripts, "queries": queries,
                      "settle_ms": 300, "meta": {"kind": "c07", "batch": b}})
    return cases


def c07_collision_case(rng, up):
    """Two TCP queries in flight to the same upstream with the same 16-bit id (forced through the hook; with random ids
    the chance is about n^2/2^17 per batch), then more TCP queries to that upstream."""
    ids = Ids(rng)
    scripts, queries = {}, []
    for k in (1, 2):
        name = [ids.uniq(), "collide", "example"]
        scripts[tok(name)] = {"kind": "ok", "tcp_kind": "hold", "ttl": 0}
        queries.append(q(ids, k, name, proto="tcp", wave=0, wait_ms=4000))
    for k in (3, 4, 5):
        name = [ids.uniq(), "aftercollision", "example"]
        scripts[tok(name)] = {"kind": "ok", "ttl": 0}
        queries.append(q(ids, k, name, proto="tcp", wave=1 + (k - 3), wait_ms=4000))
    return {"routes": [{"suffixes": [""], "kind": "forward", "up": up}], "acls": None, "scripts": scripts, "queries": queries,
            "force_id": 4242, "settle_ms": 300, "meta": {"kind": "c07-collision"}}


# ------------------------------------------------------------------ C03 ----
def c03_cases(rng, n):
    cases = []
    ids = Ids(rng)
    for ci in range(n):
        scripts, queries = {}, []
        k = 0
        for _ in range(12):
            k += 1
            name = [ids.uniq(), "c03", "example"]
            qtype = rng.choice([1, 28, 15, 6, 16, 33])
            sc = {"kind": rng.choice(["ok", "ok", "ok", "tc"]), "reply_seed": rng.randrange(1 << 30), "reply_nrec": rng.choice([0, 1, 2, 3, 5, 8]),
                  "compress": rng.random() < 0.5, "ttl": rng.choice([1, 2, 5, 300, 86400, 2 ** 31, 2 ** 32 - 1])}
            if rng.random() < 0.3:
                sc["rcode"] = rng.choice([0, 3, 5, 4, 9])
            scripts[tok(name, qtype)] = sc
            kw = dict(qtype=qtype, proto=rng.choice(["udp", "udp", "tcp"]), listener=rng.choice(["dual4", "dual6", "v6", "v4"]), adv=rng.choice([-1, 4096, 4096, 65535]),
                      cd=rng.random() < 0.3, upkind=sc["kind"])
            kw["do"] = rng.random() < 0.3
            queries.append(q(ids, k, name, **kw))
            if rng.random() < 0.25:
                sc.pop("ttl")
                sc["ttls"] = rng.choice([[600, 1, 600], [600, 600, 1], [2, 600, 600], [600, 2, 1]])
                sc["reply_nrec"] = 9
                k += 1
                queries.append(q(ids, k, name, wave=1, cached=True, sleep_before_ms=(2300 if len([x for x in queries if x.get("wave") == 1]) == 0 else 0), **kw))
            elif sc["ttl"] >= 5 and rng.random() < 0.4:
                # the same question again a little later: served from cache, TTLs may only have gone down
                k += 1
                queries.append(q(ids, k, name, wave=1, cached=True, sleep_before_ms=0, **kw))
        cases.append({"routes": [{"suffixes": ["example"], "kind": "forward", "up": 1 + ci % 6, "v6": ci % 3 == 0}], "acls": None, "scripts": scripts,
                      "queries": queries, "meta": {"kind": "c03"}})
    return cases


# ------------------------------------------------------------------ C04 ----
def c04_cases(rng, n):
    cases = []
    ids = Ids(rng)
    for ci in range(n):
        scripts, queries = {}, []
        for k in range(1, 13):
            name = [ids.uniq(), "c04", "example"]
            size = rng.choice([0, 300, 400, 450, 500, 600, 1100, 1300, 3000, 3900, 5000, 20000, 45000])
            adv = rng.choice([-1, 0, 511, 512, 513, 1232, 4096, 16384, 65535])
            sc = {"kind": "ok" if size < 3500 else "tc", "size": size, "ttl": 0}
            scripts[tok(name)] = sc
            queries.append(q(ids, k, name, proto=rng.choice(["udp", "tcp"]), adv=adv, upkind=sc["kind"], listener=rng.choice(["dual4", "v6"]), wait_ms=5000))
        cases.append({"routes": [{"suffixes": [""], "kind": "forward", "up": 1 + ci % 6}], "acls": None, "scripts": scripts, "queries": queries, "meta": {"kind": "c04"}})
    # the same reply (one address + three 200-octet records, ~700 octets) against every advertised size around its own
    # size: each octet of the limit between "all but one record fit", "everything but the OPT record fits" and "all fits"
    scripts, queries = {}, []
    for k, adv in enumerate(range(560, 760), 1):
        name = ["b%03d" % k, "c04", "example"]
        scripts[tok(name)] = {"kind": "ok", "size": 600, "ttl": 0}
        queries.append(q(ids, k, name, proto="udp", adv=adv, upkind="ok", listener="v4", wait_ms=5000))
    cases.append({"routes": [{"suffixes": [""], "kind": "forward", "up": 2}], "acls": None, "scripts": scripts, "queries": queries, "meta": {"kind": "c04-sweep"}})
    return cases


# ------------------------------------------------------------------ C08 ----
def v4o(s):
    return [int(x) for x in s.split(".")]


def v6o(s):
    import ipaddress
    return list(ipaddress.IPv6Address(s).packed)


SRC4 = ["127.0.20.1", "127.0.20.2", "127.0.20.6", "127.9.9.9"]
SRC6 = ["::1", "fd00::20:1", "fd00::20:5"]
ACL_PREFIXES = [["v4", v4o("127.0.20.0"), 24], ["v4", v4o("127.0.20.4"), 30], ["v4", v4o("127.0.20.1"), 32], ["v4", v4o("127.0.20.77"), 24],
                ["v4", v4o("127.0.0.0"), 8], ["v4", v4o("0.0.0.0"), 0], ["v4", v4o("127.9.0.0"), 16],
                ["v6", v6o("fd00::20:0"), 112], ["v6", v6o("fd00::20:5"), 128], ["v6", v6o("::1"), 128], ["v6", v6o("::"), 0],
                ["v6", v6o("::ffff:127.0.20.0"), 120], ["v6", v6o("::ffff:127.0.20.9"), 126], ["v6", v6o("fd00::20:ffff"), 112]]
OPS = ["dns-recursion", "http", "http-metrics", "http-leases"]


def c08_cases(rng, n):
    cases = []
    ids = Ids(rng)
    # rule lists that separate the address families at their seams: the IPv6 loopback and the IPv4-compatible range ::/96 are
    # IPv6 (only ::ffff:a.b.c.d is an IPv4 client), an IPv4 /0 is not an IPv6 /0
    P = lambda sub, perms: {"any": False, "subnets": sub, "unix": -1, "perms": perms}
    directed = [[P([["v6", v6o("::1"), 128]], ["dns-recursion"])],
                [P([["v4", v4o("0.0.0.0"), 0]], []), P([["v6", v6o("::"), 0]], ["dns-recursion"])],
                [P([["v4", v4o("0.0.0.0"), 0]], ["dns-recursion"])],
                [P([["v4", v4o("127.0.20.0"), 24]], ["dns-recursion"]), P([["v6", v6o("::"), 96]], [])]]
    for ci in range(n + len(directed)):
        rules = []
        for _ in range(rng.choice([0, 1, 2, 2, 3, 4])):
            r = {"any": rng.random() < 0.15, "subnets": [], "unix": rng.choice([-1, -1, -1, 0, 1]), "perms": sorted(rng.sample(OPS, rng.randint(0, 4)))}
            if not r["any"]:
                r["subnets"] = [rng.choice(ACL_PREFIXES) for _ in range(rng.choice([0, 1, 1, 2]))]
            rules.append(r)
        if ci >= n:
            rules = directed[ci - n]
        queries = []
        k = 0
        shared = [ids.uniq(), "shared", "example"]       # asked by everybody: a cached answer must not leak to refused clients
        for wave, srcs in enumerate([SRC4 + SRC6, SRC4 + SRC6]):
            for src in srcs:
                v4 = "." in src
                for listener in (["v4", "dual4"] if v4 else ["v6", "dual6"]):
                    k += 1
                    name = shared if wave == 1 else [ids.uniq(), "c08", "example"]
                    dst = ("127.0.0.1" if v4 else ("::1" if src == "::1" else "fd00::10:1"))
                    queries.append(q(ids, k, name, src=src, dst=dst, listener=listener, proto=rng.choice(["udp", "udp", "tcp"]), wave=wave, cached=(wave == 1), wait_ms=1500))
        cases.append({"routes": [{"suffixes": [""], "kind": "forward", "up": 1 + ci % 6}], "acls": rules,
                      "scripts": {"default": {"kind": "ok", "ttl": 30}}, "queries": queries, "meta": {"kind": "c08"}})
    return cases


# ---------------------------------------------------------------- driving ----
def run_rig(run, pid, cases, tag):
    cf = run.path("rig-%s.ndjson" % tag)
    open(cf, "w").write("".join(json.dumps(c) + "\n" for c in cases))
    tf = run.path("rigtrace-%s.ndjson" % tag)
    p = drive(run, "rig", ["dns", "--cases", cf, "--out", tf], timeout=3000, check=False)
    if p.returncode == 3:
        raise ToolError("the end-to-end rig needs a private network+mount namespace (unshare -n -m) which is not available here: %s" % p.stderr.strip()[-300:])
    if p.returncode != 0:
        raise ToolError("rig failed: %s" % p.stderr.strip()[-500:])
    lines = open(tf).readlines()
    for ln in lines:
        if '"ev":"cfg_rejected"' in ln:
            raise ToolError("generated DNS configuration rejected: %s" % ln[:400])
    # validate case by case groups to keep TLC's trace small
    total = {}
    start = 0
    idx = [i for i, ln in enumerate(lines) if ln.startswith('{"acls"') or '"ev":"case"' in ln[:400]]
    groups, cur = [], []
    bounds = idx + [len(lines)]
    for a, b in zip(bounds, bounds[1:]):
        cur.append((a, b))
        if sum(y - x for x, y in cur) > 2500:
            groups.append(cur)
            cur = []
    if cur:
        groups.append(cur)
    for gi, g in enumerate(groups):
        part = lines[g[0][0]:g[-1][1]]
        pf = run.path("rigpart-%s-%d.ndjson" % (tag, gi))
        open(pf, "w").write("".join(part))
        rep = tlc_trace(run, "ForwardTrace", "ForwardTrace.cfg", pf, {"Enforce": tla_set([pid])}, tag="%s%d" % (tag, gi))
        record_violations(run, pid, rep["viol"], part, trace_name="rig-%s%d" % (tag, gi), whole_case=True)
        for k, v in rep["stats"].items():
            total[k] = total.get(k, 0) + v
    return lines, total


def _sample(lines):
    out = []
    for want in ('"ev":"csend"', '"ev":"urecv"', '"ev":"crecv"'):
        for ln in lines:
            if want in ln:
                out.append(json.loads(ln))
                break
    return out


GEN = {"C15": lambda rng, th: c15_cases(rng, 12 if not th else 150),
       "C07": lambda rng, th: [dict(c, routes=[dict(c["routes"][0], up=1 + i % 5)]) for i, c in enumerate(c07_cases(rng, 3 if not th else 16, 40 if not th else 200, 2 if not th else 6))],
       "C03": lambda rng, th: c03_cases(rng, 6 if not th else 80)}
MCS = {"C15": [("MC_DnsRoute", "MC_DnsRoute.cfg")], "C07": [("DnsForward", "MC_DnsForward.cfg"), ("DnsForward", "MC_DnsForward_live.cfg"), ("MC_DnsTcpStream", "MC_DnsTcpStream.cfg")], "C03": [("DnsForward", "MC_DnsForward.cfg")]}
RULES = {
    "C15": "case = route table (1..6 routes x 0..4 suffixes over nested/sibling suffixes and the empty suffix, some written in upper case) in two permutations (routes and suffixes shuffled) x names of 0..5 labels in lower, upper and mixed case, with and without RD, over four listeners; observed: rcode at the client and which scripted upstream (one per route, 127.0.10.k:53) received the question; TLC evaluates DnsRoute!Outcomes",
    "C07": "batches of concurrent queries (UDP and TCP, four listener kinds; TCP also with 2..5 queries pipelined on one connection, the stream written in one piece or chopped into pieces of 1, 7 and 64 octets) against scripted upstreams executing fault schedules: 0..3 dropped transmissions x {answer, wrong id -> TCP, TC -> TCP, duplicate, late}, held (reordered) TCP replies, silent upstream; per query TLC checks exactly one reply, own id/question/answer, source = destination queried, SERVFAIL on silence, <= 5 transmissions, reply within 60 s",
    "C03": "queries (any type, EDNS/DO/CD, UDP/TCP, four listeners, v4 and v6 upstreams) whose upstream replies are generated structured messages (0..8 records of all rdata shapes per section, rcodes, compressed or not, TTLs 1..2^32-1), some asked again from cache; both the bytes the upstream sent and the bytes the client received are projected by the harness's walker; TLC checks id/question/QR/rcode and section-wise equality (TTL only ever reduced)",
}


def check(pid, tier):
    run = Run(pid, tier)
    try:
        build_harness()
        for mod, cfg in MCS[pid]:
            mc_must_pass(run, tlc_mc(run, mod, cfg, workers=8, timeout=900, coverage=False, tag="mc" + cfg[-8:-4]))
        refuted = None
        if pid == "C07":
            r = tlc_mc(run, "DnsForward", "MC_DnsForward_nocoll.cfg", workers=4, timeout=300, coverage=False, tag="nocoll", expect_violation=True)
            refuted = (not r["ok"]) and r["violated"] is not None
            r2 = tlc_mc(run, "MC_DnsTcpStream", "MC_DnsTcpStream_legacy.cfg", workers=2, timeout=120, coverage=False, tag="legacytcp", expect_violation=True)
            legacy_refuted = (not r2["ok"]) and r2["violated"] is not None
        cases = GEN[pid](run.rng, run.thorough)
        if pid == "C07" and run.thorough:
            # after the upstream hung up: more than two minutes of quiet (longer than the idle timers of the upstream
            # connection), then queries that need upstream TCP again
            ids = Ids(run.rng)
            scripts, queries = {}, []
            name = [ids.uniq(), "hangup", "example"]
            scripts[tok(name)] = {"kind": "tc", "tcp_kind": "close", "ttl": 0}
            queries.append(q(ids, 1, name, proto="tcp", upkind="close", wait_ms=8000))
            for k in (2, 3):
                name = [ids.uniq(), "afterquiet", "example"]
                scripts[tok(name)] = {"kind": "ok", "ttl": 0}
                queries.append(q(ids, k, name, proto="tcp", upkind="ok", wave=k - 1, wait_ms=6000, sleep_before_ms=(125000 if k == 2 else 0)))
            cases.append({"routes": [{"suffixes": [""], "kind": "forward", "up": 5}], "acls": None, "scripts": scripts, "queries": queries, "settle_ms": 300, "meta": {"kind": "c07-quiet"}})
        if pid in ("C07", "C03"):
            # last: it may leave the TCP channel to that upstream dead for the rest of the process
            # (C03: a reply that reaches the wrong query is another question's answer under one's own id)
            cases.append(c07_collision_case(run.rng, 6))
        lines, total = run_rig(run, pid, cases, pid.lower())
        cov = {
            "states": run.mc["states"], "transitions": run.mc["transitions"],
            "traces_validated_against_impl": total.get("queries", 0), "events_validated": len(lines), "evaluations": total.get("queries", 0),
            "distinct_nontrivial": total.get("queries", 0) - total.get("noreply", 0),
            "rule": RULES[pid] + "; non-trivial = queries that produced a reply, all distinct (unique names)",
            "samples": _sample(lines), "counters": total, "exhaustive": False,
        }
        if refuted is not None:
            cov["model_finds_tcp_id_collision"] = refuted
            cov["model_refutes_one_query_per_connection_listener"] = legacy_refuted
        rc = finish(run, "model_checking", cov, [
            "in-process DnsService inside a private network namespace (unshare -n -m); clients and scripted upstreams on loopback addresses; real timers",
            "events are numbered by one process-wide sequence counter; the follower judges each query at the end of its case",
            "the projections (walker, digests) are the harness's own; TLC decides with Acl!Granted, DnsRoute!Outcomes and the ForwardTrace predicates",
        ])
    except ToolError as e:
        log("TOOL-ERROR: %s" % e)
        return 2
    finally:
        run.cleanup()
    return rc


# -------------------------------------------------------- e2e parts of others ----
def c04_tcp_edge(run, pid):
    """TCP replies whose full size walks across 65535/65536 octets, the largest message a two-octet frame length can
    announce.  The upstream compresses like erbium does, so sizes carry over; the offset between the script's size
    parameter and the size of erbium's reply is measured with one probe query first."""
    ids = Ids(run.rng)
    def case(sizes):
        scripts, queries = {}, []
        for k, size in enumerate(sizes, 1):
            name = ["e%03d" % k, "edge", "example"]
            scripts[tok(name)] = {"kind": "ok", "size": size, "ttl": 0, "compress": True}
            queries.append(q(ids, k, name, proto="tcp", adv=4096, upkind="ok", listener="v4", wait_ms=8000))
        return {"routes": [{"suffixes": [""], "kind": "forward", "up": 3}], "acls": None, "scripts": scripts, "queries": queries, "meta": {"kind": "c04-tcp-edge"}}
    # the size parameter counts rdata octets; every 200 of them add a record (12 more octets): close in on the edge
    size, hit = 61000, None
    for _ in range(4):
        lines, _ = run_rig(run, pid, [case([size])], "c04p")
        rs = [json.loads(l) for l in lines if '"ev":"crecv"' in l]
        if not rs or rs[0]["tc"] == 1:
            run.notes.append("TCP size probe (size %d) unanswered or truncated: the 65535/65536 edge was not walked" % size)
            return {"events": 0}
        d = 65530 - rs[0]["len"]
        if abs(d) <= 3:
            hit = (size, rs[0]["len"])
            break
        size += int(d / 1.06) if abs(d) > 30 else d
    if hit is None:
        run.notes.append("could not close in on a 65530-octet TCP reply: the 65535/65536 edge was not walked")
        return {"events": 0}
    sizes = [hit[0] + (65536 - hit[1]) + d for d in range(-9, 5)]      # replies of ~65527..65540 octets if nothing were cut
    lines, total = run_rig(run, pid, [case(sizes)], "c04e")
    got = sorted((json.loads(l)["len"], json.loads(l)["tc"]) for l in lines if '"ev":"crecv"' in l)
    return {"events": len(lines), "reply_sizes_and_tc": got, "counters": total}


def c04_e2e(run, pid):
    cases = c04_cases(run.rng, 4 if not run.thorough else 40)
    lines, total = run_rig(run, pid, cases, "c04")
    edge = c04_tcp_edge(run, pid)
    return {"events": len(lines) + edge["events"], "nontrivial": total.get("replies", 0), "counters": total, "tcp_edge": edge}


def c08_e2e(run, pid, _fn_cases):
    cases = c08_cases(run.rng, 5 if not run.thorough else 60)
    lines, total = run_rig(run, pid, cases, "c08")
    return {"events": len(lines), "nontrivial": total.get("queries", 0), "counters": total}


def c16_e2e(run, pid):
    """floods of refused queries from sources without permission at the real listener; a quiet source at the end"""
    import dns_ratelimit
    tf = run.path("flood.ndjson")
    p = drive(run, "rig", ["flood", "--out", tf, "--n", 800 if not run.thorough else 4000, "--bursts", 2 if not run.thorough else 6], timeout=3600, check=False)
    lines = open(tf).readlines() if os.path.exists(tf) else []
    if not any('"endflood"' in l for l in lines):
        raise ToolError("rig flood did not finish (exit %s): %s" % (p.returncode, (p.stderr or "")[-300:]))
    B, R = dns_ratelimit.impl_constants()
    rep = tlc_trace(run, "RateLimitTrace", "RateLimitTrace.cfg", tf, {"Enforce": tla_set([pid]), "ImplB": str(B), "ImplR": str(R)}, tag="flood")
    record_violations(run, pid, rep["viol"], lines, trace_name="flood")
    end = json.loads(lines[-1])
    if end.get("panics", 0):
        direct_violation(run, pid, "listenerPanicsUnderFlood", "a task of the DNS service panicked during the flood", {"trace": tf})
    floods = [json.loads(l) for l in lines if '"ev":"cookie_flood"' in l]
    if not floods:
        run.notes.append("the listener issued no server cookie: the cookie exemption was not exercised at service level")
    return {"events": len(lines), "refused_received": rep["stats"]["granted"], "queries": rep["stats"]["reqs"], "quiet_sources": rep["stats"]["quiet"],
            "cookie_floods": {f["kind"]: [f["answered"], f["sent"]] for f in floods}}


# ------------------------------------------------------------------ C06 ----
def c06_cases(rng, n):
    """per case a dozen names with short TTL vectors; every name is asked again and again (same key, near-miss
    keys in waves of their own so that the upstream query can be attributed by time)"""
    cases = []
    ids = Ids(rng)
    for ci in range(n):
        scripts = {"default": {"kind": "ok", "ttl": 0}}
        names = []
        for k in range(10):
            name = [ids.uniq(), "c06", "example"]
            m = rng.choice([0, 1, 1, 2, 2, 3, 4, 60])
            # the minimum sits in any of the three sections
            ttls = [rng.choice([m + 1, m + 5, 3600, 2 ** 31]) for _ in range(3)]
            ttls[rng.randrange(3)] = m
            # (the response code must not matter for how long a reply lives; REFUSED is left out, relayed REFUSED is rate limited)
            scripts[tok(name)] = {"kind": "ok", "ttls": ttls, "rcode": rng.choice([0, 0, 0, 2, 3]), "reply_seed": rng.randrange(10 ** 6), "reply_nrec": rng.choice([3, 4, 6])}
            names.append((name, m))
        queries = []
        def ask(wave, sleep_first=0, **kw):
            first = True
            for (name, m) in names:
                nm = [l.upper() for l in name] if kw.get("upper") and rng.random() < 0.5 else name
                queries.append(q(ids, len(queries) + 1, nm, wave=wave, cached=True, adv=1232, listener=rng.choice(["v4", "dual4", "v6"]),
                                 proto=rng.choice(["udp", "udp", "tcp"]), sleep_before_ms=(sleep_first if first else 0),
                                 **{k: v for k, v in kw.items() if k != "upper"}))
                first = False
        ask(0)
        ask(1, 300, upper=True)             # same key shortly after: may come from the cache
        ask(2, 0, cd=True)                  # near-miss keys: must not be answered from the entry above
        ask(3, 0, do=True)
        ask(4, 0, qtype=28)
        ask(5, 700, upper=True)             # ~1.2 s after the first answers
        ask(6, 1100)                        # ~2.4 s
        ask(7, 1100, cd=True)               # ~3.6 s (the CD entries are ~3.2 s old)
        ask(8, 1300)                        # ~5 s
        cases.append({"routes": [{"suffixes": [""], "kind": "forward", "up": 1 + ci % 3}], "acls": None, "scripts": scripts, "queries": queries, "settle_ms": 100, "meta": {"kind": "c06"}})
    return cases


def c06_e2e(run, pid):
    cases = c06_cases(run.rng, 1 if not run.thorough else 12)
    cf = run.path("rig-c06.ndjson")
    open(cf, "w").write("".join(json.dumps(c) + "\n" for c in cases))
    tf = run.path("rigtrace-c06.ndjson")
    p = drive(run, "rig", ["dns", "--cases", cf, "--out", tf], timeout=3000, check=False)
    if p.returncode != 0:
        raise ToolError("rig failed: %s" % p.stderr.strip()[-500:])
    lines = open(tf).readlines()
    total = {}
    idx = [i for i, ln in enumerate(lines) if '"ev":"case"' in ln[:400]] + [len(lines)]
    for gi, (a, b) in enumerate(zip(idx, idx[1:])):
        part = lines[a:b]
        pf = run.path("rigpart-c06-%d.ndjson" % gi)
        open(pf, "w").write("".join(part))
        rep = tlc_trace(run, "CacheE2ETrace", "CacheE2ETrace.cfg", pf, tag="c06e%d" % gi)
        record_violations(run, pid, rep["viol"], part, trace_name="rig-c06-%d" % gi, whole_case=True)
        for k, v in rep["stats"].items():
            total[k] = total.get(k, 0) + v
    return {"events": len(lines), "counters": total}
