import traceback
from common import log

def run(pid, tier):
    try:
        if pid in ("C01", "C09", "C10", "C13", "C20"):
            import dhcp_lease
            return dhcp_lease.check(pid, tier)
        if pid in ("C02", "C11"):
            import dhcp_policy
            return dhcp_policy.check(pid, tier)
        if pid in ("C03", "C07", "C15"):
            import dns_rig
            return dns_rig.check(pid, tier)
        if pid == "C05":
            import ingest_check
            return ingest_check.check(pid, tier)
        if pid == "C19":
            import conf_check
            return conf_check.check(pid, tier)
        if pid == "C17":
            import radv_check
            return radv_check.check(pid, tier)
        if pid == "C08":
            import acl_check
            return acl_check.check(pid, tier)
        if pid == "C16":
            import dns_ratelimit
            return dns_ratelimit.check(pid, tier)
        if pid == "C06":
            import dns_cache
            return dns_cache.check(pid, tier)
        if pid == "C14":
            import dns_wire
            return dns_wire.check_c14(pid, tier)
        if pid == "C04":
            import dns_wire
            return dns_wire.check_c04(pid, tier)
        if pid == "C12":
            import dhcp_wire
            return dhcp_wire.check(pid, tier)
        if pid == "C18":
            import dhcp_store
            return dhcp_store.check(pid, tier)
        log("TOOL-ERROR: no check registered for %s" % pid)
        return 2
    except Exception:
        traceback.print_exc()
        log("TOOL-ERROR: unexpected exception in the checker")
        return 2
