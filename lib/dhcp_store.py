"""C18: leases survive restarts, schema upgrades and crashes (spec/DhcpStore.tla,
spec/StoreTrace.tla, LeaseTrace reopen events)."""
import json, os
from common import *
import dhcp_lease


def check(pid, tier):
    run = Run(pid, tier)
    try:
        bt = build_harness()
        # 1. the design: every crash point of the open/migrate step machine
        mc = tlc_mc(run, "MC_DhcpStore", "MC_DhcpStore.cfg", workers=4, timeout=300, overrides={"AtomicC": "TRUE"}, coverage=True)
        mc_must_pass(run, mc)
        # the same model with statement-by-statement migration must be refuted (non-vacuity of C18b)
        old = tlc_mc(run, "MC_DhcpStore", "MC_DhcpStore_strict.cfg", workers=4, timeout=300, coverage=False, tag="mcold", expect_violation=True)
        refuted = (not old["ok"]) and old["violated"] is not None
        # 2. every file state the model can leave behind -> real open
        cases, st = tlc_enumerate(run, "MC_DhcpStore", "MC_DhcpStore.cfg", overrides={"AtomicC": "TRUE"}, tag="enum")
        for n in ([0, 1, 7, 20] if not run.thorough else [0, 1, 2, 3, 5, 8, 13, 21, 34, 55, 89, 144]):
            for _ in range(2 if not run.thorough else 6):
                cases.append({"sv": "none", "shape": "v0", "nrows": n})
                cases.append({"sv": "v0", "shape": "v0", "nrows": n})
                cases.append({"sv": "v1", "shape": "v1", "nrows": n})
                cases.append({"sv": "v%d" % run.rng.choice([2, 3, 9, 1000]), "shape": "v1", "nrows": n})
        cf = run.path("cases.ndjson")
        open(cf, "w").write("".join(json.dumps(c) + "\n" for c in cases))
        t1 = run.path("files.ndjson")
        drive(run, "store", ["files", "--cases", cf, "--out", t1, "--dbdir", run.path("db"), "--seed", run.seed])
        # 3. restart equivalence on lease histories
        nsim, depth, nrand = (40, 15, 60) if not run.thorough else (400, 25, 800)
        scen = [s for s in dhcp_lease.directed_scenarios() if "alltypes" not in s["sc"]] + dhcp_lease.tlc_scenarios(run, nsim, depth)
        for i in range(nrand):
            scen.append(dhcp_lease.rand_scenario(run.rng, "pool" if i % 3 else "pkt", i))
        sf = run.path("scen.ndjson")
        open(sf, "w").write("".join(json.dumps(s) + "\n" for s in scen))
        t2 = run.path("split.ndjson")
        drive(run, "store", ["split", "--scenarios", sf, "--out", t2, "--dbdir", run.path("db"), "--seed", run.seed])
        # 4. crash points: deterministic (strace injection) and random SIGKILL
        t3 = run.path("crash.ndjson")
        p = drive(run, "store", ["crashpoints", "--out", t3, "--dbdir", run.path("db"), "--seed", run.seed,
                                 "--max", 2 if not run.thorough else 6], check=False)
        crash_enum = p.returncode == 0
        if not crash_enum:
            run.notes.append("deterministic crash-point enumeration unavailable (strace/ptrace failed: %s); relying on random SIGKILL runs" % p.stderr.strip()[-200:])
            open(t3, "w").write("")
        t4 = run.path("kill.ndjson")
        drive(run, "store", ["kill", "--out", t4, "--dbdir", run.path("db"), "--seed", run.seed, "--n", 25 if not run.thorough else 300])
        allf = run.path("store-all.ndjson")
        with open(allf, "w") as fh:
            for t in (t1, t2, t3, t4):
                fh.write(open(t).read())
        lines = open(allf).readlines()
        rep = tlc_trace(run, "StoreTrace", "StoreTrace.cfg", allf, {"Enforce": tla_set([pid])}, tag="tvs")
        run.drift += len(rep["drift"])
        if rep["drift"]:
            run.notes.append("first drift line %d: %s" % (rep["drift"][0], lines[rep["drift"][0] - 1][:300]))
        record_violations(run, pid, rep["viol"], lines, trace_name="store")
        # 5. ordinary lease histories: what is acknowledged is stored (C18e), reopen preserves every row exactly (C18a)
        t5 = run.path("lease.ndjson")
        rs = [s for s in scen if any(st["k"] == "restart" for st in s["steps"])] + [dhcp_lease.fill_scenario(run.rng, "pool" if i % 3 else "pkt", i) for i in range(10 if not run.thorough else 150)]
        sf2 = run.path("scen-restart.ndjson")
        open(sf2, "w").write("".join(json.dumps(s) + "\n" for s in rs))
        drive(run, "dhcp", ["--scenarios", sf2, "--out", t5, "--dbdir", run.path("db")])
        rep2 = tlc_trace(run, "LeaseTrace", "LeaseTrace.cfg", t5, {"Enforce": tla_set([pid])}, tag="tvl")
        l5 = open(t5).readlines()
        record_violations(run, pid, rep2["viol"], l5, trace_name="lease")
        ncrash = sum(1 for l in open(t3)) if crash_enum else 0
        cov = {
            "states": run.mc["states"], "transitions": run.mc["transitions"],
            "traces_validated_against_impl": len(cases) + len(scen) + ncrash + rep["stats"]["kills"] + len(rs),
            "evaluations": len(lines) + len(l5),
            "distinct_nontrivial": len({json.dumps(c, sort_keys=True) for c in cases}) + ncrash + rep["stats"]["cmps"] - rep["stats"]["skewed"],
            "rule": "cases: (a) every database-file state the DhcpStore model reaches by a crash + v0/v1/newer files with generated rows, each opened by the real Pool; (b) every scenario run uninterrupted and with close/reopen at a seeded split point, replies compared (pairs with clock skew between the two runs are counted as inconclusive); (c) the child (open + N allocations) SIGKILLed on entry to the k-th pwrite64/fdatasync/unlink/ftruncate on the database or journal, for every k (strace injection), plus random-instant SIGKILLs; non-trivial = distinct file state / distinct crash point / comparison without skew",
            "samples": [json.loads(lines[0]), json.loads(open(t2).readline())] + ([json.loads(open(t3).readline())] if ncrash else []),
            "store_counters": rep["stats"], "lease_counters": {"reopen": rep2["stats"]["reopen"]},
            "crash_points_enumerated": ncrash, "crash_point_enumeration": crash_enum,
            "model_refutes_nonatomic_migration": refuted,
            "exhaustive": False,
        }
        if not refuted:
            run.notes.append("MC of the non-atomic migration (Atomic=FALSE, strict C18b) was expected to be refuted but was not")
        rc = finish(run, "model_checking", cov, [
            "SQLite's atomic-commit guarantee against process death is assumed in the model and exercised (not assumed) by the SIGKILL runs",
            "kill = SIGKILL of the process (not power loss): data in the OS page cache survives",
            "file states are constructed and inspected with the harness's own rusqlite connection",
            "reply equality across a restart is only enforced when both runs saw the same clock seconds (skew=false)",
        ])
    except ToolError as e:
        log("TOOL-ERROR: %s" % e)
        return 2
    finally:
        run.cleanup()
    return rc
