"""C14 and the function-level part of C04 (spec/DnsWire.tla, DnsWireTrace.tla)."""
import json
from common import *


def drive_and_validate(run, pid, mode, n, extra, tag):
    tf = run.path("%s.ndjson" % tag)
    drive(run, "dnswire", [mode, "--out", tf, "--seed", run.seed, "--n", n] + extra)
    lines = open(tf).readlines()
    total = {}
    for j, part in enumerate(chunks(lines, 3000)):
        pf = run.path("%s-%d.ndjson" % (tag, j))
        open(pf, "w").write("".join(part))
        rep = tlc_trace(run, "DnsWireTrace", "DnsWireTrace.cfg", pf, {"Enforce": tla_set([pid])}, tag="%s%d" % (tag, j))
        record_violations(run, pid, rep["viol"], part, trace_name="%s%d" % (tag, j))
        run.drift += len(rep["drift"])
        for k, v in rep["stats"].items():
            total[k] = total.get(k, 0) + v
    return lines, total


def check_c14(pid, tier):
    run = Run(pid, tier)
    try:
        build_harness()
        mc = tlc_mc(run, "MC_DnsWire", "MC_DnsWire.cfg", workers=4, timeout=300, coverage=False)
        mc_must_pass(run, mc)
        n, big = (200, 3) if not run.thorough else (3000, 40)
        lines, total = drive_and_validate(run, pid, "rt", n, ["--big", big], "rt")
        cov = {
            "states": run.mc["states"], "transitions": run.mc["transitions"],
            "traces_validated_against_impl": len(lines), "evaluations": len(lines),
            "distinct_nontrivial": total.get("rt", 0) + total.get("image", 0),
            "rule": "dns_rt: structured messages (0..2000 records over all name-bearing rdata types, names sharing suffixes at every depth, EDNS options, opaque rdata up to 65 KiB, padding that puts first occurrences of suffixes at offsets 16384-40..16384+3000) built by the harness, encoded by DNSPkt::serialise, walked by an independent walker (every pointer: backwards, < 16384, to a label start) and decoded by the crate's parser; dns_image: mutations of valid encodings that the decoder accepts, re-encoded and decoded again; all distinct by construction (seeded)",
            "samples": [json.loads(lines[0]), json.loads(lines[-1])], "counters": total, "exhaustive": False,
        }
        rc = finish(run, "model_checking", cov, [
            "identity is decided by TLC over the walker's projection (names expanded, digests) and by the crate's own PartialEq on DNSPkt",
            "AD/CD/Z header bits are compared at their RFC 4035 positions",
            "messages above 300 records log pointer summaries and the pointers near or beyond 16 KiB instead of every pointer",
        ])
    except ToolError as e:
        log("TOOL-ERROR: %s" % e)
        return 2
    finally:
        run.cleanup()
    return rc


def check_c04(pid, tier):
    run = Run(pid, tier)
    try:
        build_harness()
        mc_must_pass(run, tlc_mc(run, "MC_DnsWire", "MC_DnsWire.cfg", workers=4, timeout=300, coverage=False))
        sp = tlc_mc(run, "MC_DnsWire", "MC_DnsWire_splice.cfg", workers=2, timeout=120, coverage=False, tag="splice", expect_violation=True)
        n = 300 if not run.thorough else 4000
        lines, total = drive_and_validate(run, pid, "emit", n, [], "emit")
        e2e = {}
        try:
            import dns_rig
            e2e = dns_rig.c04_e2e(run, pid)
        except ImportError:
            run.notes.append("transport-level part (which limit the UDP and TCP listeners apply) not built yet")
        cov = {
            "states": run.mc["states"], "transitions": run.mc["transitions"],
            "traces_validated_against_impl": len(lines) + e2e.get("events", 0), "evaluations": len(lines) + e2e.get("events", 0),
            "distinct_nontrivial": total.get("truncated", 0) + total.get("exact", 0) + e2e.get("nontrivial", 0),
            "rule": "dns_emit: responses whose unlimited encoding lands at limit/2, limit-1, limit, limit+1, limit+200, 3*limit for limits 512..65535, encoded by serialise_with_size(limit), walked by the independent walker; TLC checks well-formedness, length <= limit, records a prefix of the full message, TC iff truncated, counts per section, completeness when it fits; non-trivial = truncated or landing within 1 octet of the limit",
            "samples": [json.loads(lines[0])], "counters": total, "e2e": e2e,
            "model_refutes_count_splice": (not sp["ok"]) and sp["violated"] is not None, "exhaustive": False,
        }
        rc = finish(run, "model_checking", cov, [
            "the walker (harness) decides parse_ok and the record projections; TLC decides the clauses",
            "maximality of the prefix is not required (drift note only)",
        ])
    except ToolError as e:
        log("TOOL-ERROR: %s" % e)
        return 2
    finally:
        run.cleanup()
    return rc
