"""Service-level parts that need the full rig (real DhcpService + http::run in a private namespace,
DHCP clients on a veth pair, HTTP clients over TCP and unix sockets): C08 HTTP binding, C20."""
import json, os
from common import *
import acl_check

PATHS = ["/", "/metrics", "/api/v1/leases.json"]


def v4s(a):
    return ".".join(str(x) for x in a)


def v6s(a):
    import ipaddress
    return str(ipaddress.IPv6Address(bytes(a)))


# clients the namespace can impersonate: (listener, client description, abstract client as the ACL model sees it)
def http_clients():
    out = []
    for a in ([127, 0, 0, 1], [127, 9, 9, 9], [192, 0, 2, 7], [192, 0, 2, 200], [192, 0, 3, 1], [10, 0, 0, 1]):
        out.append(("tcp4", {"src": v4s(a), "abs": {"fam": "v4", "a": a}}))
        # the same client through the dual-stack listener is seen as an IPv4-mapped IPv6 address
        out.append(("dual4", {"src": v4s(a), "abs": {"fam": "v6", "a": acl_check.mapped(a)}}))
    for a in ([0] * 15 + [1], acl_check.v6lo(0, 7), acl_check.v6lo(1, 0)):
        out.append(("tcp6", {"src": v6s(a), "abs": {"fam": "v6", "a": a}}))
        out.append(("dual6", {"src": v6s(a), "abs": {"fam": "v6", "a": a}}))
    ux = {"fam": "unix", "a": []}
    out.append(("unixpath", {"abs": ux}))                                   # an ordinary (unnamed) unix client, e.g. curl --unix-socket
    out.append(("unixpath", {"bind": "/var/lib/erbium/client-a", "abs": ux}))
    out.append(("unixpath", {"bind": "@verif-client-b", "abs": ux}))
    out.append(("abstract", {"abs": ux}))
    out.append(("abstract", {"bind": "/var/lib/erbium/client-c", "abs": ux}))
    return out


def c08_cases(rng, n):
    clients = http_clients()
    cases = []
    docs = [[], [{"any": True, "subnets": [], "unix": -1, "perms": ["http"]}],
            [{"any": False, "subnets": [], "unix": 1, "perms": ["http-metrics", "http-leases"]}, {"any": True, "subnets": [], "unix": -1, "perms": ["dns-recursion"]}]]
    for i in range(n):
        rules = docs[i] if i < len(docs) else [acl_check.rand_rule(rng) for _ in range(rng.choice([1, 1, 2, 2, 3, 4, 6]))]
        steps = []
        chosen = clients if i < len(docs) else rng.sample(clients, 9) + [c for c in clients if c[0] in ("unixpath",)][:1]
        for (lis, cl) in chosen:
            for path in PATHS:
                steps.append({"op": "http", "listener": lis, "client": cl, "path": path})
        # sequences of requests on one keep-alive connection: every request is a decision of its own
        for (lis, cl) in [c for c in chosen if c[0] in ("tcp4", "tcp6", "dual4", "dual6")][:5]:
            for _ in range(2):
                steps.append({"op": "http_seq", "listener": lis, "client": cl, "paths": [rng.choice(PATHS) for _ in range(rng.choice([2, 3, 4, 6]))]})
        cases.append({"acls": rules, "steps": steps})
    return cases


NAMES = [b"", b"host", b"pri\"nter", b"back\\slash", b"tab\there", b"new\nline", b"\x00nul", b"caf\xc3\xa9", b"\xe9\xff\xfe", b"\x7f\x1b[31m", b"a" * 255, b"'single'", b"{\"a\":1}", b"\\u0041", b"\xf0\x9f\x98\x80"]


def c20_cases(rng, n):
    cases = []
    for i in range(n):
        steps = []
        probe = lambda tag: [{"op": "http", "listener": rng.choice(["tcp4", "tcp6"]), "client": {"src": None}, "path": "/api/v1/leases.json", "tag": tag},
                             {"op": "http", "listener": "tcp4", "client": {}, "path": "/metrics", "tag": tag}]
        def fix(ps):
            for p in ps:
                if p["listener"] == "tcp6":
                    p["client"] = {"src": "::1"}
                else:
                    p["client"] = {"src": "127.0.0.1"}
            return ps
        if i == 0:
            steps += fix(probe("empty store"))
        nclients = rng.choice([1, 2, 3, 5, 8])
        for k in range(nclients):
            ch = bytes([2, 0, i & 255, k, rng.randrange(256), rng.randrange(256)])
            cid = rng.choice([None, b"\x01" + ch, bytes(rng.randrange(256) for _ in range(rng.choice([1, 2, 7, 19, 64, 255]))), b"\xff" * 3])
            name = rng.choice(NAMES + [bytes(rng.randrange(256) for _ in range(rng.choice([1, 3, 17, 63, 200])))])
            base = {"op": "dhcp", "chaddr": ch.hex(), "cid": cid.hex() if cid is not None else None, "host": name.hex() if rng.random() < 0.85 else None}
            steps.append(dict(base, mtype=1, tag="discover"))
            if rng.random() < 0.8:
                steps.append(dict(base, mtype=3, tag="request", req="offered", sid=[192, 0, 2, 1]))
            if rng.random() < 0.4:
                steps += fix(probe("after exchange"))
        # rows other histories leave behind: no options (a table upgraded from the first schema), empty, unparsable and valid option blobs
        for k in range(rng.choice([0, 1, 2, 4])):
            opt = rng.choice([None, "", "ff", "0c", "0c05", "0c0568", "3c01", "0c03616263ff", "0c0341\"42ff".encode().hex() if False else "0c03412242ff", bytes(rng.randrange(256) for _ in range(rng.choice([1, 5, 40]))).hex()])
            steps.append({"op": "insert", "ip": "192.0.2.%d" % (240 + k), "chaddr": "0200000000%02x" % k, "cid": bytes(rng.randrange(256) for _ in range(rng.choice([0, 1, 7, 30]))).hex(),
                          "start": -rng.choice([0, 10, 1000]), "expiry": rng.choice([-100, -1, 0, 1, 2, 600, 86400]), "options": opt})
        steps += fix(probe("after exchanges"))
        # expiry: age everything to just before / exactly at / past the expiry of some leases
        for secs in rng.sample([1, 299, 300, 301, 3599, 3600, 3601, 86400, 86401, 200000], 3):
            steps.append({"op": "age", "secs": secs})
            steps += fix(probe("aged %d" % secs))
        cases.append({"acls": None, "steps": steps})
    return cases


def run_full(run, pid, cases, tag):
    cf = run.path("full-%s.ndjson" % tag)
    open(cf, "w").write("".join(json.dumps(c) + "\n" for c in cases))
    tf = run.path("full-%s-trace.ndjson" % tag)
    p = drive(run, "rig", ["full", "--cases", cf, "--out", tf], timeout=7200, check=False)
    lines = open(tf).readlines() if os.path.exists(tf) else []
    if p.returncode != 0 and not lines:
        raise ToolError("rig full did not start (exit %s): %s" % (p.returncode, (p.stderr or "")[-400:]))
    for ln in lines:
        if '"ev":"cfg_rejected"' in ln or '"ev":"tool_error"' in ln:
            raise ToolError("rig full: %s" % ln[:300])
    return tf, lines, p


def c08_http(run, pid):
    cases = c08_cases(run.rng, 14 if not run.thorough else 150)
    tf, lines, p = run_full(run, pid, cases, "c08")
    rep = tlc_trace(run, "AclTrace", "AclTrace.cfg", tf, {"Enforce": tla_set([pid])}, tag="http")
    record_violations(run, pid, rep["viol"], lines, trace_name="http", whole_case=False, max_prefix=3)
    panics = sum(json.loads(l).get("panics", 0) for l in lines if '"ev":"endcase"' in l)
    return {"events": rep["stats"]["http"], "nontrivial": rep["stats"]["multi"] + rep["stats"]["mapped"], "counters": rep["stats"], "handler_panics": panics}


def c20_http(run, pid):
    cases = c20_cases(run.rng, 6 if not run.thorough else 80)
    tf, lines, p = run_full(run, pid, cases, "c20")
    rep = tlc_trace(run, "LeaseHttpTrace", "LeaseHttpTrace.cfg", tf, tag="lh")
    record_violations(run, pid, rep["viol"], lines, trace_name="leasehttp", max_prefix=12)
    return {"events": rep["stats"]["listings"] + rep["stats"]["gauges"], "counters": rep["stats"], "dhcp_exchanges": sum(1 for l in lines if '"ev":"dhcp"' in l),
            "dhcp_replies": sum(1 for l in lines if '"ev":"dhcp"' in l and '"replied":true' in l)}
