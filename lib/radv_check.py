"""C17: router advertisements (spec/Radv.tla, RadvTrace.tla)."""
import json, ipaddress
from common import *


def fnv(b):
    h = 0xcbf29ce484222325
    for x in b:
        h ^= x
        h = (h * 0x100000001b3) & 0xFFFFFFFFFFFFFFFF
    return h % (1 << 30)


def pair(x):
    return [x >> 16, x & 0xffff]


A = {"s": "absent", "v": 0}
NUL = {"s": "null", "v": 0}


def val(v, **kw):
    return dict({"s": "val", "v": v}, **kw)


def v6(s):
    return list(ipaddress.IPv6Address(s).packed)


DURS = [0, 1, 30, 600, 1800, 65535, 65536, 100000, 2592000, 4294967, 4294968, 2 ** 31, 2 ** 32 - 1, 2 ** 32]
ADDRS = [{"k": "v6", "a": v6("2001:db8::53")}, {"k": "v6", "a": v6("2001:db8::54")}, {"k": "v6", "a": v6("fd00::1")}, {"k": "self6", "a": []}]
TOPADDRS = ADDRS + [{"k": "v4", "a": [192, 0, 2, 53]}, {"k": "self4", "a": []}]
DOMAINS = ["example.com", "example.net", "a.b.c.d.e.f.g.example", "x"]
URLS = ["http://example.com/", "https://portal.example/abc", "http://example.com/abc", "https://p.example/" + "a" * 200, "h" * 6, "u" * 14, "https://e.x/" + "b" * 10]


def tri(rng, choices, p_absent=0.4, p_null=0.15, nullable=True):
    r = rng.random()
    if r < p_absent:
        return dict(A)
    if nullable and r < p_absent + p_null:
        return dict(NUL)
    return val(rng.choice(choices))


def dtri(rng, nullable=False):
    t = tri(rng, DURS, nullable=nullable)
    if t["s"] == "val":
        t["v"] = pair(t["v"])
    return t


def domains(rng):
    ds = rng.sample(DOMAINS, rng.randint(0, 3))
    return val(ds, d=[fnv(d.lower().encode()) for d in ds], n=sum(len(d) + 2 for d in ds))


def gen_cfg(rng):
    top = {"dns": dict(A), "search": dict(A), "portal": dict(A)}
    if rng.random() < 0.5:
        top["dns"] = val(rng.sample(TOPADDRS, rng.randint(0, 4)))
    if rng.random() < 0.5:
        top["search"] = domains(rng)
    if rng.random() < 0.4:
        u = rng.choice(URLS)
        top["portal"] = val(u, d=fnv(u.encode()), n=len(u.encode()))
    i = {"hop": tri(rng, [0, 1, 64, 255], nullable=False), "managed": tri(rng, [True, False], nullable=False), "other": tri(rng, [True, False], nullable=False),
         "lifetime": dtri(rng, nullable=True), "reachable": dtri(rng), "retransmit": dtri(rng),
         "mtu": tri(rng, [1280, 1500, 9000, 65535, 4294967295]), "prefixes": [], "dns": dict(A), "search": dict(A), "pref64": dict(A), "portal": dict(A)}
    if i["mtu"]["s"] == "val" and i["mtu"]["v"] > 2 ** 31 - 1:
        i["mtu"]["v"] = 2 ** 31 - 1
    for _ in range(rng.choice([0, 1, 1, 2, 3, 16])):
        plen = rng.choice([0, 1, 48, 56, 63, 64, 65, 96, 127, 128])
        base = rng.choice(["2001:db8:0:1::", "2001:db8:0:1:ffff:ffff:ffff:ffff", "fd00:1234:5678:9abc:def0:1234:5678:9abc", "::"])
        i["prefixes"].append({"prefix": v6(base), "len": plen, "onlink": tri(rng, [True, False], nullable=False), "autonomous": tri(rng, [True, False], nullable=False),
                              "valid": dtri(rng), "preferred": dtri(rng)})
    # prefixes must be distinguishable for the comparison
    seen, ps = set(), []
    for p in i["prefixes"]:
        k = (tuple(p["prefix"]), p["len"])
        if k not in seen:
            seen.add(k)
            ps.append(p)
    i["prefixes"] = ps
    if rng.random() < 0.5:
        addrs = tri(rng, [0], p_absent=0.3, p_null=0.2)
        if addrs["s"] == "val":
            addrs["v"] = rng.sample(ADDRS, rng.randint(0, 4)) if rng.random() < 0.9 else ADDRS * 2
        i["dns"] = {"s": "val", "v": 0, "addresses": addrs, "lifetime": dtri(rng)}
    if rng.random() < 0.5:
        d = tri(rng, [0], p_absent=0.3, p_null=0.2)
        if d["s"] == "val":
            d = domains(rng)
        i["search"] = {"s": "val", "v": 0, "domains": d, "lifetime": dtri(rng)}
    if rng.random() < 0.45:
        plen = rng.choice([32, 40, 48, 56, 64, 96, 96, 64])
        lt = tri(rng, [0, 8, 600, 601, 65528, 65529, 65535, 65536, 2 ** 32 - 1], nullable=False)
        if lt["s"] == "val":
            lt["v"] = pair(lt["v"])
        i["pref64"] = {"s": "val", "v": 0, "prefix": v6(rng.choice(["64:ff9b::", "2001:db8:64:ffff:ffff:ffff:ffff:ffff"])), "len": plen, "lifetime": lt}
    r = rng.random()
    if r < 0.3:
        u = rng.choice(URLS)
        i["portal"] = val(u, d=fnv(u.encode()), n=len(u.encode()))
    elif r < 0.45:
        i["portal"] = dict(NUL)
    env = {"ll": val([2, 0, 0, 0, 0, 1]) if rng.random() < 0.8 else dict(A), "ifmtu": rng.choice([0, 1500, 1480]), "self6": v6("fe80::1") if rng.random() < 0.5 else v6("2001:db8::1"),
           "deflife": pair(rng.choice([0, 3600]))}
    return {"top": top, "if": i, "env": env}


def directed():
    """every tri-state field in each of its three states, one at a time, around an otherwise default interface"""
    import random
    rng = random.Random(17)
    out = []
    base = gen_cfg(rng)
    base["if"] = {k: (dict(A) if k != "prefixes" else []) for k in base["if"]}
    base["top"] = {"dns": dict(A), "search": dict(A), "portal": dict(A)}
    out.append(json.loads(json.dumps(base)))
    # every residue of the length modulo 8 (the option is padded to a multiple of 8 octets), small and large
    for url in ["u" * n for n in list(range(0, 35)) + list(range(61, 67)) + list(range(237, 242)) + list(range(2029, 2040))]:
        c = json.loads(json.dumps(base))
        c["if"]["portal"] = val(url, d=fnv(url.encode()), n=len(url.encode()))
        out.append(c)
    for lt in DURS:
        for f in ("lifetime", "reachable", "retransmit"):
            c = json.loads(json.dumps(base))
            c["if"][f] = val(pair(lt))
            out.append(c)
    for plen in (32, 40, 48, 56, 64, 96):
        for lt in (0, 600, 65528, 65536):
            c = json.loads(json.dumps(base))
            c["if"]["pref64"] = {"s": "val", "v": 0, "prefix": v6("64:ff9b::"), "len": plen, "lifetime": val(pair(lt))}
            out.append(c)
    # the list options at the limit of their 8-bit length field: 127 servers fit, 128 do not; a search list fits up to 2032 octets
    for n in (126, 127, 128, 200):
        c = json.loads(json.dumps(base))
        c["if"]["dns"] = {"s": "val", "v": 0, "addresses": val([{"k": "v6", "a": v6("2001:db8::%x" % (k + 1))} for k in range(n)]), "lifetime": dict(A)}
        out.append(c)
    for n, last in ((31, 46), (31, 47), (31, 48), (40, 60)):
        ds = ["d%02d." % k + "x" * 56 + ".example" for k in range(n)] + ["y" * last]
        c = json.loads(json.dumps(base))
        c["if"]["search"] = {"s": "val", "v": 0, "domains": val(ds, d=[fnv(d.lower().encode()) for d in ds], n=sum(len(d) + 2 for d in ds)), "lifetime": dict(A)}
        out.append(c)
    # sections present with only a lifetime: the list must still default to the top level
    c = json.loads(json.dumps(base))
    c["top"]["dns"] = val([ADDRS[0], ADDRS[3]])
    c["top"]["search"] = val(["example.com"], d=[fnv(b"example.com")], n=13)
    c["if"]["dns"] = {"s": "val", "v": 0, "addresses": dict(A), "lifetime": val(pair(7200))}
    c["if"]["search"] = {"s": "val", "v": 0, "domains": dict(A), "lifetime": val(pair(7200))}
    out.append(c)
    return out


def check(pid, tier):
    run = Run(pid, tier)
    try:
        build_harness()
        mc_must_pass(run, tlc_mc(run, "MC_Radv", "MC_Radv.cfg", workers=4, timeout=300, coverage=False))
        cases = directed() + [gen_cfg(run.rng) for _ in range(500 if not run.thorough else 12000)]
        total, nlines, samples = {}, 0, []
        for bi, part in enumerate(chunks(cases, 1500)):
            cf = run.path("cases-%d.ndjson" % bi)
            open(cf, "w").write("".join(json.dumps(c) + "\n" for c in part))
            tf = run.path("trace-%d.ndjson" % bi)
            drive(run, "radv", ["--cases", cf, "--out", tf])
            lines = open(tf).readlines()
            rep = tlc_trace(run, "RadvTrace", "RadvTrace.cfg", tf, {"Enforce": tla_set([pid])}, tag="tv%d" % bi)
            record_violations(run, pid, rep["viol"], lines, trace_name="radv-b%d" % bi)
            for k, v in rep["stats"].items():
                total[k] = total.get(k, 0) + v
            nlines += len(lines)
            if bi == 0:
                samples = [json.loads(lines[0]), json.loads(lines[-1])]
        # ---- service level: the configuration goes live in the real RaAdvService, a router solicitation is answered over the veth pair
        import http_rig
        def wire_env(c):
            c = json.loads(json.dumps(c))
            c["env"] = {"ll": val([2, 0, 0, 0, 1, 1]), "ifmtu": 1500, "self6": v6("2001:db8:0:1::1"), "deflife": pair(1800)}
            return c
        def fits_link(c):
            # an advertisement larger than the link MTU cannot be sent at all (it is never fragmented); such
            # configurations are judged at function level only
            i, top = c["if"], c["top"]
            n = 16 + 8 + 8 + 32 * len(i["prefixes"]) + 16
            for sec, key, per in (("dns", "addresses", 16), ("search", "domains", 0)):
                v = i[sec][key] if i[sec]["s"] == "val" and i[sec][key]["s"] == "val" else top[sec] if top[sec]["s"] == "val" else None
                if v is not None:
                    n += 8 + (per * len(v["v"]) if per else v.get("n", 0) + 8)
            for pv in (i["portal"], top["portal"]):
                if pv["s"] == "val":
                    n += pv.get("n", 0) + 10
            return n < 1200
        pool = [c for c in cases if fits_link(c)]
        wcases = [wire_env(c) for c in (pool if run.thorough else pool[:1] + run.rng.sample(pool, min(len(pool), 120)))]
        tf2, sl, p = http_rig.run_full(run, pid, [{"acls": None, "steps": [{"op": "radv", "cfg": c} for c in wcases]}], "radv")
        rep = tlc_trace(run, "RadvTrace", "RadvTrace.cfg", tf2, {"Enforce": tla_set([pid])}, tag="svc")
        record_violations(run, pid, rep["viol"], sl, trace_name="radv-svc", max_prefix=1)
        svc = {"advertisements": sum(1 for l in sl if '"ev":"ra"' in l and '"outcome":"ok"' in l), "cases": len(wcases), "counters": rep["stats"]}
        cov = {
            "service_level": svc,
            "evaluations": nlines, "traces_validated_against_impl": nlines, "states": run.mc["states"] + nlines + 1, "transitions": run.mc["transitions"] + nlines,
            "model_checking": run.mc,
            "distinct_nontrivial": len({json.dumps(c, sort_keys=True) for c in cases}),
            "rule": "case = interface configuration (every field absent / null / value; lifetimes from {0,1,...,65535,65536,...,2^32-1,2^32}; 0..16 prefixes of lengths 0..128 with host bits; 0..8 DNS servers incl. $self6; 0..3 search domains; NAT64 lengths 32..96; URLs of 0..240 octets) + top-level defaults + environment (link-layer address, interface MTU, interface address, default router lifetime), rendered to YAML, loaded by the real loader, built and serialised by the real code, decoded by the harness's RFC 4861/8106/8781/8910 decoder; TLC derives the expected content from the configuration; distinct by JSON",
            "samples": samples, "counters": total, "exhaustive": False,
        }
        rc = finish(run, "model_checking", cov, [
            "the decoder is the harness's own, written from the RFCs; equality with the configured values is decided by TLC (Radv.tla)",
            "default lifetimes of the DNS options are not constrained (manual and code disagree); a configured value that does not fit its field may be rejected at load or clamped",
            "function level through the hook radv::verif_build_ra (repeats the mtu/lifetime defaulting of build_announcement)",
            "service level: the case's configuration is swapped into the running RaAdvService (interface veth0 of the private namespace), a router solicitation is sent from the other end of the veth pair and the advertisement captured there is decoded and judged by the same RadvTrace; environment = the interface's real link-layer address, MTU 1500, global address 2001:db8:0:1::1 for $self6, an IPv6 default route through another interface (default router lifetime 1800 s, so that `lifetime: null` and an absent lifetime differ on the wire); the periodic (unsolicited) sender is not waited for",
        ])
    except ToolError as e:
        log("TOOL-ERROR: %s" % e)
        return 2
    finally:
        run.cleanup()
    return rc
