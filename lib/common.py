"""Shared machinery of /verif/bin/check: build the harness against /repo's
working tree, run TLC (model checking, scenario generation, trace validation),
match violations against known_findings.json, write evidence and replays.

Exit codes: 0 property held on everything explored (known findings listed),
1 new violation (with a VIOLATION line and a replay file), 2 tool error."""
import json, os, re, shutil, subprocess, sys, time, hashlib, random

VERIF = os.path.dirname(os.path.dirname(os.path.abspath(__file__)))
SPEC = os.path.join(VERIF, "spec")
HARNESS = os.path.join(VERIF, "harness")
BIN = os.path.join(HARNESS, "target", "debug", "erbium-verif")
EVID = os.path.join(VERIF, "evidence")
REPLAYS = os.path.join(VERIF, "replays")
KNOWN = os.path.join(VERIF, "known_findings.json")
JAVA_TV = "-Xss1g -Dtlc2.tool.queue.IStateQueue=StateDeque"


class ToolError(Exception):
    pass


def log(*a):
    print(*a, flush=True)


class Run:
    """One invocation of one check."""

    def __init__(self, pid, tier):
        self.pid = pid
        self.tier = os.environ.get("VERIF_TIER", tier) or "quick"
        if self.tier not in ("quick", "thorough"):
            self.tier = "quick"
        try:
            self.seed = int(os.environ.get("VERIF_SEED", "1"))
        except ValueError:
            self.seed = 1
        self.rng = random.Random(self.seed * 1000003 + int(pid[1:]))
        self.t_start = time.time()
        self.dir = os.path.join(VERIF, "run", "%s-%d" % (pid, os.getpid()))
        shutil.rmtree(self.dir, ignore_errors=True)
        os.makedirs(self.dir)
        self.violations = []      # dicts: property, shape, detail, replay
        self.known_hits = {}      # finding key -> count
        self.drift = 0
        self.notes = []
        self.cov = {}
        self.assumptions = []
        self.mc = {"states": 0, "transitions": 0, "runs": []}
        self.timing = {}

    def path(self, name):
        return os.path.join(self.dir, name)

    def cleanup(self):
        shutil.rmtree(self.dir, ignore_errors=True)

    @property
    def thorough(self):
        return self.tier == "thorough"


# ---------------------------------------------------------------- build ----
def build_harness():
    """Rebuild the harness against /repo's current working tree (hooks on)."""
    lock_src = "/repo/Cargo.lock"
    lock_dst = os.path.join(HARNESS, "Cargo.lock")
    if not os.path.exists(lock_dst) and os.path.exists(lock_src):
        shutil.copy(lock_src, lock_dst)
    env = dict(os.environ, CARGO_NET_OFFLINE="true")
    t = time.time()
    p = subprocess.run(["cargo", "build", "--offline"], cwd=HARNESS, env=env,
                       stdout=subprocess.PIPE, stderr=subprocess.STDOUT, text=True)
    if p.returncode != 0:
        sys.stdout.write(p.stdout[-6000:])
        raise ToolError("harness build failed (a hook or driver no longer compiles against /repo)")
    return time.time() - t


def drive(run, driver, args, timeout=1800, check=True):
    cmd = [BIN, driver] + [str(a) for a in args]
    t = time.time()
    p = subprocess.run(cmd, stdout=subprocess.PIPE, stderr=subprocess.PIPE, text=True, timeout=timeout)
    run.timing["drive"] = round(run.timing.get("drive", 0) + time.time() - t, 1)
    k = "drive:%s%s" % (driver, (":" + str(args[0])) if args and not str(args[0]).startswith("-") else "")
    run.timing[k] = round(run.timing.get(k, 0) + time.time() - t, 1)
    if check and p.returncode != 0:
        sys.stdout.write(p.stdout[-3000:] + p.stderr[-3000:])
        raise ToolError("driver %s failed with status %d" % (driver, p.returncode))
    return p


# ------------------------------------------------------------------ TLC ----
def _tlc_env(extra=None, java=None):
    env = dict(os.environ)
    if java:
        env["JAVA_TOOL_OPTIONS"] = java
    if extra:
        env.update(extra)
    return env


def write_cfg(path, base_cfg, overrides):
    """Copy a .cfg replacing `NAME = ...` constant lines given in overrides."""
    out = []
    seen = set()
    for line in open(os.path.join(SPEC, base_cfg)):
        m = re.match(r"\s*(CONSTANT\s+)?(\w+)\s*=", line)
        if m and m.group(2) in overrides:
            out.append("%s%s = %s\n" % (m.group(1) or "  ", m.group(2), overrides[m.group(2)]))
            seen.add(m.group(2))
        else:
            out.append(line)
    missing = set(overrides) - seen
    if missing:
        raise ToolError("cfg %s lacks constants %s" % (base_cfg, missing))
    open(path, "w").write("".join(out))


def tla_set(xs):
    return "{" + ", ".join('"%s"' % x if isinstance(x, str) else str(x) for x in xs) + "}"


def tlc_trace(run, module, base_cfg, trace, overrides=None, tag="tv", timeout=1800, env=None):
    """Validate one NDJSON trace against <module>.tla; returns the REPORT dict."""
    cfg = run.path("%s-%s.cfg" % (module, tag))
    write_cfg(cfg, base_cfg, overrides or {})
    meta = run.path("meta-" + tag)
    cmd = ["tlc", "-workers", "1", "-metadir", meta, "-cleanup", "-noGenerateSpecTE",
           "-config", cfg, os.path.join(SPEC, module + ".tla")]
    t_tv = time.time()
    p = subprocess.run(["timeout", str(timeout)] + cmd, cwd=SPEC,
                       env=_tlc_env(dict({"TRACE": trace}, **(env or {})), JAVA_TV + " -Xmx6g"),
                       stdout=subprocess.PIPE, stderr=subprocess.STDOUT, text=True)
    out = p.stdout
    run.timing["tlc_trace"] = round(run.timing.get("tlc_trace", 0) + time.time() - t_tv, 1)
    shutil.rmtree(meta, ignore_errors=True)
    m = None
    for line in out.splitlines():
        if line.startswith('<<"REPORT"'):
            m = line
    if m is None or "Model checking completed. No error has been found." not in out:
        open(run.path("tlc-%s.out" % tag), "w").write(out)
        keep = os.path.join(VERIF, "run", "last-tlc-error.out")
        open(keep, "w").write(out)
        raise ToolError("trace validation could not follow %s (see %s): %s" %
                        (trace, keep, "; ".join(l for l in out.splitlines() if "rror" in l)[:400]))
    js = m[len('<<"REPORT", '):-2]
    rep = json.loads(json.loads(js))
    return rep


def tlc_mc(run, module, cfg, workers=8, timeout=900, overrides=None, tag="mc", coverage=True, expect_violation=None):
    """Exhaustive model checking.  Returns dict(states, transitions, ok, out)."""
    cfgp = os.path.join(SPEC, cfg)
    if overrides:
        cfgp = run.path("%s-%s.cfg" % (module, tag))
        write_cfg(cfgp, cfg, overrides)
    meta = run.path("meta-" + tag)
    cmd = ["tlc", "-workers", str(workers), "-metadir", meta, "-cleanup", "-noGenerateSpecTE"]
    if coverage:
        cmd += ["-coverage", "1"]
    cmd += ["-config", cfgp, os.path.join(SPEC, module + ".tla")]
    t = time.time()
    p = subprocess.run(["timeout", str(timeout)] + cmd, cwd=SPEC, env=_tlc_env(None, "-Xmx12g"),
                       stdout=subprocess.PIPE, stderr=subprocess.STDOUT, text=True)
    out = p.stdout
    shutil.rmtree(meta, ignore_errors=True)
    res = {"module": module, "cfg": cfg, "wall_s": round(time.time() - t, 1), "ok": False,
           "states": 0, "transitions": 0, "timeout": p.returncode == 124}
    m = re.search(r"(\d+) states generated, (\d+) distinct states found, (\d+) states left", out)
    if m:
        res["transitions"] = int(m.group(1))
        res["states"] = int(m.group(2))
        res["left"] = int(m.group(3))
    res["ok"] = "Model checking completed. No error has been found." in out
    vm = re.search(r"Error: (Action property|Invariant|Temporal properties|Property) ?(\w+)? ?(is|were) violated", out)
    res["violated"] = vm.group(0) if vm else None
    acts = {}
    for am in re.finditer(r"<(\w+) line \d+, col \d+ to line \d+, col \d+ of module (\w+)>: (\d+):(\d+)", out):
        acts[am.group(1)] = acts.get(am.group(1), 0) + int(am.group(4))
    res["actions"] = acts
    res["out_tail"] = out[-1500:]
    res["out_all"] = out
    if not res["ok"] and not res["timeout"] and expect_violation is None:
        open(os.path.join(VERIF, "run", "last-mc-error.out"), "w").write(out)
    return res


def mc_must_pass(run, res):
    run.mc["runs"].append({k: res[k] for k in ("module", "cfg", "states", "transitions", "wall_s", "ok", "timeout", "actions")})
    run.mc["states"] += res["states"]
    run.mc["transitions"] += res["transitions"]
    if res["timeout"]:
        run.notes.append("MC %s timed out after %ss with %d distinct states (no violation found so far)" %
                         (res["cfg"], res["wall_s"], res["states"]))
        return
    if not res["ok"]:
        raise ToolError("model checking of %s/%s failed: %s -- the specification (not the code) needs attention; see run/last-mc-error.out"
                        % (res["module"], res["cfg"], res["violated"]))


def tlc_simulate(run, module, cfg, num, depth, marker="SCENARIO", overrides=None, tag="gen", timeout=600):
    """Run TLC in simulation mode and collect the JSON payload of marker lines."""
    cfgp = os.path.join(SPEC, cfg)
    if overrides:
        cfgp = run.path("%s-%s.cfg" % (module, tag))
        write_cfg(cfgp, cfg, overrides)
    meta = run.path("meta-" + tag)
    cmd = ["tlc", "-workers", "1", "-simulate", "num=%d" % num, "-depth", str(depth),
           "-seed", str(run.seed), "-metadir", meta, "-noGenerateSpecTE",
           "-config", cfgp, os.path.join(SPEC, module + ".tla")]
    p = subprocess.run(["timeout", str(timeout)] + cmd, cwd=SPEC, env=_tlc_env(None, "-Xmx4g"),
                       stdout=subprocess.PIPE, stderr=subprocess.STDOUT, text=True)
    shutil.rmtree(meta, ignore_errors=True)
    seen, outl = set(), []
    pre = '<<"%s", ' % marker
    for line in p.stdout.splitlines():
        if line.startswith(pre):
            js = line[len(pre):-2]
            if js in seen:
                continue
            seen.add(js)
            outl.append(json.loads(json.loads(js)))
    if not outl:
        open(os.path.join(VERIF, "run", "last-gen-error.out"), "w").write(p.stdout)
        raise ToolError("scenario generation with %s produced nothing (see run/last-gen-error.out)" % module)
    return outl


def tlc_enumerate(run, module, cfg, marker="CASE", overrides=None, tag="enum", timeout=900, workers=4):
    """Exhaustive TLC run whose states print marker lines (one per case)."""
    cfgp = os.path.join(SPEC, cfg)
    if overrides:
        cfgp = run.path("%s-%s.cfg" % (module, tag))
        write_cfg(cfgp, cfg, overrides)
    meta = run.path("meta-" + tag)
    cmd = ["tlc", "-workers", str(workers), "-metadir", meta, "-cleanup", "-noGenerateSpecTE",
           "-config", cfgp, os.path.join(SPEC, module + ".tla")]
    p = subprocess.run(["timeout", str(timeout)] + cmd, cwd=SPEC, env=_tlc_env(None, "-Xmx8g"),
                       stdout=subprocess.PIPE, stderr=subprocess.STDOUT, text=True)
    shutil.rmtree(meta, ignore_errors=True)
    pre = '<<"%s", ' % marker
    seen, outl = set(), []
    for line in p.stdout.splitlines():
        if line.startswith(pre):
            js = line[len(pre):-2]
            if js not in seen:
                seen.add(js)
                outl.append(json.loads(json.loads(js)))
    m = re.search(r"(\d+) states generated, (\d+) distinct states found", p.stdout)
    stats = {"transitions": int(m.group(1)), "states": int(m.group(2))} if m else {"transitions": 0, "states": 0}
    if "Model checking completed. No error has been found." not in p.stdout:
        open(os.path.join(VERIF, "run", "last-gen-error.out"), "w").write(p.stdout)
        raise ToolError("enumeration with %s/%s failed (see run/last-gen-error.out)" % (module, cfg))
    return outl, stats


# ------------------------------------------------------- known findings ----
def load_known():
    if not os.path.exists(KNOWN):
        return []
    return json.load(open(KNOWN)).get("findings", [])


def match_known(pid, shape):
    for f in load_known():
        if f.get("status") == "open" and f["property"] == pid and f["shape"] == shape:
            return f
    return None


def record_violations(run, pid, viols, trace_lines, scen_of_line=None, trace_name="trace", whole_case=False, max_prefix=None):
    """viols: list of [property, line, shape].  Splits into known / new; writes
    a replay (trace prefix up to the offending line) for the first new ones."""
    new = 0
    for v in viols:
        prop, line, shape = v[0], v[1], v[2]
        if prop != pid:
            continue
        f = match_known(pid, shape)
        if f:
            key = "%s|%s" % (pid, shape)
            run.known_hits[key] = run.known_hits.get(key, 0) + 1
            continue
        new += 1
        # one replay per distinct shape (the first occurrence), at most 12 replay files per run
        have = {v["shape"] for v in run.violations if v.get("replay")}
        if shape in have or len(have) >= 12:
            run.violations.append({"property": pid, "shape": shape, "line": line, "replay": None})
            continue
        os.makedirs(os.path.join(REPLAYS, pid), exist_ok=True)
        rp = os.path.join(REPLAYS, pid, "%s-seed%d-%s-l%d.ndjson" % (trace_name, run.seed, re.sub(r"[^A-Za-z0-9_.@-]", "_", shape[:60]), line))
        # prefix from the last reset before `line`
        start = 0
        for i in range(min(line, len(trace_lines)) - 1, -1, -1):
            if '"ev":"reset"' in trace_lines[i] or '"ev": "reset"' in trace_lines[i] or (whole_case and '"ev":"case"' in trace_lines[i][:600]):
                start = i
                break
        if max_prefix is not None:
            start = max(start, line - max_prefix)
        with open(rp, "w") as fh:
            fh.write(json.dumps({"replay_of": pid, "shape": shape, "seed": run.seed, "tier": run.tier,
                                 "offending_line_in_this_file": line - start + 1,
                                 "note": "events recorded from the real code; last line is where the predicate was false"}) + "\n")
            end = line
            if whole_case:
                # rig traces: the judgement is made at the end of the case; keep the whole case
                end = len(trace_lines)
                for i in range(line, len(trace_lines)):
                    if '"ev":"case"' in trace_lines[i][:600]:
                        end = i
                        break
            for ln in trace_lines[start:end]:
                fh.write(ln if ln.endswith("\n") else ln + "\n")
        run.violations.append({"property": pid, "shape": shape, "line": line, "replay": rp})
    return new


def direct_violation(run, pid, shape, detail, replay_obj):
    """A violation found outside a TLC trace (e.g. a panic observed by a driver)
    -- still goes through the known-findings filter."""
    f = match_known(pid, shape)
    if f:
        key = "%s|%s" % (pid, shape)
        run.known_hits[key] = run.known_hits.get(key, 0) + 1
        return False
    have = {v["shape"] for v in run.violations if v.get("replay")}
    if shape not in have and len(have) < 12:
        os.makedirs(os.path.join(REPLAYS, pid), exist_ok=True)
        h = hashlib.sha1(json.dumps(replay_obj, sort_keys=True).encode()).hexdigest()[:10]
        rp = os.path.join(REPLAYS, pid, "%s-%s.json" % (re.sub(r"[^A-Za-z0-9_.@-]", "_", shape[:60]), h))
        json.dump({"property": pid, "shape": shape, "detail": detail, "case": replay_obj}, open(rp, "w"), indent=1)
    else:
        rp = None
    run.violations.append({"property": pid, "shape": shape, "detail": detail, "replay": rp})
    return True


# ------------------------------------------------------------- evidence ----
def finish(run, level, coverage, assumptions):
    """Write evidence, print KNOWN-FINDING / VIOLATION lines, return exit code."""
    wall = round(time.time() - run.t_start, 1)
    for key, n in sorted(run.known_hits.items()):
        pid, shape = key.split("|", 1)
        f = match_known(pid, shape)
        log("KNOWN-FINDING: property=%s %s [%s] (%d occurrence(s) this run; %s)" %
            (pid, f.get("what", shape), shape, n, f.get("where", "")))
    for f in load_known():
        if f["property"] == run.pid and f.get("status") == "fixed":
            log("note: fixed finding for %s (%s): %s -- no longer suppressed, would be reported if it returned" %
                (run.pid, f.get("commit", "?"), f.get("shape")))
    nviol = len(run.violations)
    coverage = dict(coverage)
    coverage.setdefault("known_findings_hit", run.known_hits)
    coverage.setdefault("spec_drift_lines", run.drift)
    coverage.setdefault("notes", run.notes)
    coverage.setdefault("mc_runs", run.mc["runs"])
    coverage.setdefault("timing_s", run.timing)
    ev = {"property_id": run.pid, "tier": run.tier, "seed": run.seed, "level": level,
          "coverage": coverage, "assumptions": assumptions, "wall_s": wall, "violations": nviol}
    os.makedirs(EVID, exist_ok=True)
    tmp = os.path.join(EVID, ".%s.json.tmp" % run.pid)
    json.dump(ev, open(tmp, "w"), indent=1, sort_keys=True, default=str)
    os.replace(tmp, os.path.join(EVID, "%s.json" % run.pid))
    if run.drift:
        log("SPEC-DRIFT: %d trace line(s) outside the implementation-shaped result set (information only)" % run.drift)
    for n in run.notes:
        log("note: " + n)
    if nviol:
        hist = {}
        for v in run.violations:
            hist[v.get("shape")] = hist.get(v.get("shape"), 0) + 1
        log("violation shapes: %s" % json.dumps(hist))
        shown = [v for v in run.violations if v.get("replay")]
        for v in shown:
            log("VIOLATION property=%s replay=%s" % (run.pid, v.get("replay")))
            log("  shape=%s %s" % (v.get("shape"), v.get("detail", "line %s" % v.get("line"))))
        if nviol > len(shown):
            log("  (+%d further violations of the shapes above%s)" % (nviol - len(shown), "" if len({v.get("shape") for v in run.violations}) <= len(shown) else " and of further shapes"))
        return 1
    log("OK property=%s tier=%s seed=%d wall=%.1fs" % (run.pid, run.tier, run.seed, wall))
    return 0


def chunks(xs, n):
    for i in range(0, len(xs), n):
        yield xs[i:i + n]


def scen_hash(obj):
    return hashlib.sha1(json.dumps(obj, sort_keys=True).encode()).hexdigest()[:12]
