"""C08: ACLs (spec/Acl.tla, MC_Acl.tla, AclTrace.tla)."""
import json
from common import *

V4_LENS = [0, 1, 7, 8, 9, 23, 24, 25, 31, 32]
V6_LENS = [0, 1, 63, 64, 65, 95, 96, 97, 120, 127, 128]
OPS = ["dns-recursion", "http", "http-metrics", "http-leases"]


def v4(s):
    return [int(x) for x in s.split(".")]


def v6lo(x, y):
    return [0x20, 0x01, 0x0d, 0xb8] + [0] * 10 + [x, y]


def mapped(a4):
    return [0] * 10 + [255, 255] + a4


def rand_prefix(rng):
    if rng.random() < 0.55:
        a = rng.choice([v4("192.0.2.0"), v4("192.0.2.53"), v4("192.0.2.128"), v4("192.0.3.7"), v4("10.0.0.1"), v4("0.0.0.0"), v4("255.255.255.255"), v4("127.0.0.1")])
        return ["v4", a, rng.choice(V4_LENS)]
    a = rng.choice([v6lo(0, 0), v6lo(0, 7), v6lo(255, 255), mapped(v4("192.0.2.0")), mapped(v4("192.0.2.9")), [0] * 16, [0] * 15 + [1], [255] * 16])
    return ["v6", a, rng.choice(V6_LENS)]


CLIENTS = [{"fam": "v4", "a": v4("192.0.2.7")}, {"fam": "v4", "a": v4("192.0.2.200")}, {"fam": "v4", "a": v4("192.0.3.1")},
           {"fam": "v4", "a": v4("10.0.0.1")}, {"fam": "v4", "a": v4("127.0.0.1")}, {"fam": "v4", "a": v4("127.9.9.9")},
           {"fam": "v6", "a": v6lo(0, 7)}, {"fam": "v6", "a": v6lo(1, 0)}, {"fam": "v6", "a": [0] * 15 + [1]},
           {"fam": "v6", "a": mapped(v4("192.0.2.7"))}, {"fam": "v6", "a": mapped(v4("10.0.0.1"))},
           {"fam": "v6", "a": [0] * 12 + v4("192.0.2.7")},      # IPv4-compatible (deprecated), NOT mapped
           {"fam": "unix", "a": []}]


def rand_rule(rng):
    r = {"any": rng.random() < 0.2, "subnets": [], "unix": rng.choice([-1, -1, -1, 0, 1]), "perms": sorted(rng.sample(OPS, rng.randint(0, 4)))}
    if not r["any"]:
        r["subnets"] = [rand_prefix(rng) for _ in range(rng.choice([0, 1, 1, 1, 2, 3]))]
    return r


def gen_cases(rng, n):
    cases = [{"rules": [], "clients": CLIENTS}]
    for _ in range(n):
        cases.append({"rules": [rand_rule(rng) for _ in range(rng.choice([1, 1, 2, 2, 3, 4, 6]))], "clients": rng.sample(CLIENTS, 6)})
    # the documented defaults
    return cases


def check(pid, tier):
    run = Run(pid, tier)
    try:
        build_harness()
        mc_must_pass(run, tlc_mc(run, "MC_Acl", "MC_Acl.cfg", workers=8, timeout=600, coverage=False))
        cases = gen_cases(run.rng, 150 if not run.thorough else 3000)
        total, nlines, samples = {}, 0, []
        for bi, part in enumerate(chunks(cases, 120)):
            cf = run.path("cases-%d.ndjson" % bi)
            open(cf, "w").write("".join(json.dumps(c) + "\n" for c in part))
            tf = run.path("trace-%d.ndjson" % bi)
            drive(run, "acl", ["--cases", cf, "--out", tf])
            lines = open(tf).readlines()
            for ln in lines:
                if '"ev":"cfg_rejected"' in ln:
                    raise ToolError("generated ACL configuration rejected: %s" % ln[:300])
            rep = tlc_trace(run, "AclTrace", "AclTrace.cfg", tf, {"Enforce": tla_set([pid])}, tag="tv%d" % bi)
            record_violations(run, pid, rep["viol"], lines, trace_name="acl-b%d" % bi)
            for k, v in rep["stats"].items():
                total[k] = total.get(k, 0) + v
            nlines += len(lines)
            if bi == 0:
                samples = [json.loads(lines[0]), json.loads(lines[-1])]
        e2e = {}
        try:
            import dns_rig
            e2e = dns_rig.c08_e2e(run, pid, cases)
        except (ImportError, AttributeError):
            run.notes.append("DNS and HTTP bindings (real listeners) not built yet")
        import http_rig
        http = http_rig.c08_http(run, pid)
        e2e = dict(e2e, http=http)
        e2e["events"] = e2e.get("events", 0) + http["events"]
        e2e["nontrivial"] = e2e.get("nontrivial", 0) + http["nontrivial"]
        cov = {
            "states": run.mc["states"], "transitions": run.mc["transitions"],
            "traces_validated_against_impl": nlines + e2e.get("events", 0), "evaluations": nlines + e2e.get("events", 0),
            "distinct_nontrivial": total.get("multi", 0) + total.get("hostbits", 0) + total.get("mapped", 0) + e2e.get("nontrivial", 0),
            "rule": "rule lists of 0..6 rules (subnet lists of 0..3 prefixes over v4 lengths {0,1,7,8,9,23,24,25,31,32} and v6 lengths {0,1,63,64,65,95,96,97,120,127,128}, with and without host bits, unix flag, any subset of the 4 permissions) rendered to YAML and loaded by the real loader x clients (v4, v6, mapped, v4-compatible, loopback, unix) x 4 operations; TLC evaluates Acl!Granted per decision; non-trivial = decisions where >=2 rules match, a prefix with host bits matters, or the client is a mapped address",
            "samples": samples, "counters": total, "e2e": e2e, "exhaustive": False,
        }
        rc = finish(run, "model_checking", cov, [
            "Acl.tla is an independent transcription of erbium.conf(5) ACL semantics and of the property statement (mapped addresses, host bits)",
            "function-level binding uses acl::require_permission on rule lists loaded through the real YAML loader",
            "HTTP binding: real http::run in a private namespace; listeners TCP 127.0.0.1, [::1], dual-stack [::] (IPv4 clients appear as mapped addresses), unix path and abstract sockets; clients on 6 IPv4 and 3 IPv6 source addresses and unnamed / path-bound / abstract-bound unix sockets; the status of GET /, /metrics, /api/v1/leases.json is the decision (403 = refused), judged by the same AclTrace",
        ])
    except ToolError as e:
        log("TOOL-ERROR: %s" % e)
        return 2
    finally:
        run.cleanup()
    return rc
