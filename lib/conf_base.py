"""The base document of the C19 grammar (uses every key of erbium.conf(5)), path operations,
macro expansion and rendering.  Positions and replacements come from spec/ConfGrammar.tla."""
import json, re


class Lit:
    def __init__(self, text):
        self.text = text


def base():
    return {
        "addresses": ["192.0.2.1/24", "2001:db8::/64"],
        "dns-servers": ["$self4", "$self6", "192.0.2.53", "2001:db8::53"],
        "dns-search": ["example.com", "example.org"],
        "captive-portal": "https://portal.example/",
        "api-listeners": ["@erbium-verif", "[::1]:9968"],
        "dns-listeners": ["[::]:53"],
        "default-listen-style": "bind-unspecified",
        "acls": [
            {"match-subnets": ["192.0.2.0/24", "2001:db8::/64"], "apply-access": ["dns-recursion", "http-ro"]},
            {"match-unix": True, "apply-access": ["http"]},
        ],
        "dns-routes": [
            {"domain-suffixes": [""], "type": "forward", "dns-servers": ["127.0.10.1"]},
            {"domain-suffixes": ["invalid", "Corp.Example"], "type": "forge-nxdomain"},
        ],
        "router-advertisements": {"eth0": {
            "hop-limit": 64, "managed": False, "other": False, "lifetime": "1h", "reachable": "5m", "retransmit": "1s",
            "min-router-advertisement-interval": "1350s", "max-router-advertisement-interval": "1800s", "mtu": 1480,
            "dns-servers": {"addresses": ["2001:db8::53"], "lifetime": "1h"},
            "dns-search": {"domains": ["example.com"], "lifetime": "1h"},
            "captive-portal": "https://p.example/",
            "pref64": {"prefix": "64:ff9b::/96", "lifetime": "10m"},
            "prefixes": [{"prefix": "2001:db8:0:1::/64", "on-link": True, "autonomous": True, "valid": "30d", "preferred": "7d"}],
        }},
        "dhcp-policies": [{
            "apply-ntp-servers": ["192.0.2.123"], "apply-default-lease": "1h", "apply-max-lease": "2h",
            "policies": [
                {"match-subnet": "192.0.2.0/24", "apply-range": {"start": "192.0.2.100", "end": "192.0.2.199"},
                 "apply-routes": [{"prefix": "203.0.113.0/24", "next-hop": "$self4"}],
                 "apply-dns-servers": ["192.0.2.53"], "apply-domain-name": "example.com", "apply-mtu": 1400, "apply-forward": False,
                 "apply-time-offset": 3600, "apply-default-ttl": 64, "apply-netmask": "255.255.255.0", "apply-captive-portal": "https://dhcp.example/",
                 "policies": [
                     {"match-hardware-address": "02:00:00:00:00:01", "apply-address": "192.0.2.110"},
                     {"match-host-name": "printer", "apply-address": "192.0.2.111"},
                 ]},
                {"match-interface": "eth1", "apply-subnet": "198.51.100.0/24"},
                {"match-class-id": "x", "apply-subnet": "203.0.113.0/24"},
            ],
        }],
    }


def emit(node):
    if isinstance(node, Lit):
        return node.text
    if isinstance(node, dict):
        return "{" + ", ".join("%s: %s" % (k.text if isinstance(k, Lit) else json.dumps(k), emit(v)) for k, v in node.items()) + "}"
    if isinstance(node, list):
        return "[" + ", ".join(emit(v) for v in node) + "]"
    if node is True:
        return "true"
    if node is False:
        return "false"
    if node is None:
        return "~"
    if isinstance(node, int):
        return str(node)
    return json.dumps(node)


def resolve(doc, path):
    """returns (parent, key) for the position"""
    parts = path.split("/")
    cur, parent, key = doc, None, None
    for p in parts:
        parent = cur
        if isinstance(cur, list):
            key = int(p)
            cur = cur[key]
        else:
            key = p
            cur = cur[key]
    return parent, key


def leaves(doc, prefix=""):
    """every position of the document (collections and scalars)"""
    out = []
    items = doc.items() if isinstance(doc, dict) else enumerate(doc)
    for k, v in items:
        p = "%s%s" % (prefix + "/" if prefix else "", k)
        out.append(p)
        if isinstance(v, (dict, list)):
            out += leaves(v, p)
    return out


def expand(lit):
    m = re.match(r"<(\w+):(\d*)([^>]*)>$", lit)
    if not m:
        return Lit(lit)
    kind, n = m.group(1), int(m.group(2) or 0)
    if kind == "str":
        return "a" * n
    if kind == "url":
        return ("http://e.x/" + "a" * max(0, n - 11))[:n]
    if kind == "label":
        return "a" * n + ".example"
    if kind == "domain":
        s = ""
        while len(s) < n:
            s += ("a" * 63)[: max(1, min(63, n - len(s) - 1))] + "."
        return s[:n].rstrip(".") if n < 255 else s[:n]
    if kind == "iplist":
        return ["10.%d.%d.%d" % (i >> 16 & 255, i >> 8 & 255, i & 255) for i in range(1, n + 1)]
    if kind == "path":
        return "/" + "p" * (n - 1)
    if kind == "abstract":
        return "@" + "p" * (n - 1)
    raise ValueError(lit)


def render(case):
    """YAML text for a grammar case [path, type, lit]"""
    doc = base()
    parent, key = resolve(doc, case["path"])
    lit = case["lit"]
    if lit == "<delete>":
        del parent[key]
    elif lit.startswith("<addkey:"):
        parent[key][lit[8:-1]] = "x"
    elif lit.startswith("<dup"):
        n = int(lit[5:-1]) if ":" in lit else 2 * len(parent[key])
        parent[key] = [parent[key][i % len(parent[key])] for i in range(n)]
    else:
        parent[key] = expand(lit)
    return emit(doc)
