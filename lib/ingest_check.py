"""C05: no packet or frame crashes a handler (spec/WireGrammar.tla, IngestTrace.tla)."""
import json, os, subprocess
from common import *

STRUCT = ("item", "pair", "hdr", "name", "rr", "mgmt", "opt")


def add_site(lines):
    """shape key = handler.outcome@file:message (line numbers stripped so that unrelated edits do not move it)"""
    import re
    out = []
    for l in lines:
        e = json.loads(l)
        if e.get("ev") == "feed" and e.get("outcome") not in ("ok", "err"):
            d = e.get("detail") or ""
            m = re.search(r"panicked at ([^\s:]+):\d+:\d+:\s*(.*)", d, re.S)
            if m:
                f = m.group(1).split("/src/")[-1]
                msg = re.sub(r"\d+", "N", m.group(2).strip().splitlines()[0] if m.group(2).strip() else "")[:60]
                e["outcome"] = "%s@%s:%s" % (e["outcome"], f, msg)
        out.append(json.dumps(e) + "\n")
    return out


def _empty(run):
    p = run.path("empty.ndjson")
    open(p, "w").close()
    return p


def check(pid, tier):
    run = Run(pid, tier)
    try:
        build_harness()
        cases, st = tlc_enumerate(run, "WireGrammar", "WireGrammar.cfg", workers=4)
        run.mc["states"] += st["states"]
        run.mc["transitions"] += st["transitions"]
        ngrammar = len(cases)
        if not run.thorough:
            pairs = [c for c in cases if c["k"] == "pair"]
            keep = set(id(c) for c in run.rng.sample(pairs, len(pairs) // 6))
            cases = [c for c in cases if c["k"] != "pair" or id(c) in keep]
        # ---- function level: every decoder + what the handlers do with the result, in a child process
        cf = run.path("plan.ndjson")
        open(cf, "w").write("".join(json.dumps(c) + "\n" for c in cases))
        tf = run.path("ingest.ndjson")
        drive(run, "ingest", ["--cases", cf, "--out", tf, "--seed", run.seed, "--rand", 4000 if not run.thorough else 400000], timeout=7200)
        lines = add_site(open(tf).readlines())
        open(tf, "w").write("".join(lines))
        rep = tlc_trace(run, "IngestTrace", "IngestTrace.cfg", tf, env={"PLAN": cf}, tag="fn", timeout=3600)
        if rep["missing"]:
            raise ToolError("%d planned grammar cases were not fed to any handler" % rep["missing"])
        record_violations(run, pid, rep["viol"], lines, trace_name="ingest", max_prefix=40)
        stats = dict(rep["stats"])
        # ---- service level: hostile datagrams, streams and upstream replies against the real DNS service
        svc = {"batches": 0, "hostile": 0}
        dns = [c for c in cases if c["fmt"] in ("dns", "edns", "dnshdr")]
        strata = {}
        for c in dns:
            strata.setdefault(c["k"], []).append(c)
        pick = []
        for k, cs in sorted(strata.items()):
            n = len(cs) if run.thorough or k in ("name", "hdr") else min(len(cs), 220)
            pick += run.rng.sample(cs, n)
        run.rng.shuffle(pick)
        hf = run.path("hostile.ndjson")
        open(hf, "w").write("".join(json.dumps(c) + "\n" for c in pick))
        ht = run.path("hostile-trace.ndjson")
        p = drive(run, "rig", ["hostile", "--cases", hf, "--out", ht, "--batch", 500], timeout=7200, check=False)
        hl = open(ht).readlines() if os.path.exists(ht) else []
        started = [json.loads(l)["case"] for l in hl if '"svcstart"' in l]
        done = [json.loads(l)["case"] for l in hl if '"ev":"svc"' in l]
        if p.returncode != 0 or set(started) != set(done):
            # the rig process (which hosts the service) died: that is an observation, not a tool error
            dead = sorted(set(started) - set(done))
            if not started and p.returncode != 0:
                raise ToolError("rig hostile did not start (exit %s): %s" % (p.returncode, (p.stderr or "")[-400:]))
            for c in dead:
                hl.append(json.dumps({"ev": "svc", "case": c, "hostile": 0, "panics": 0, "alive": False, "answered": False,
                                      "detail": "the process hosting the DNS service died (exit %s): %s" % (p.returncode, (p.stderr or "")[-300:].replace("\n", " "))}) + "\n")
            open(ht, "w").write("".join(hl))
        rep2 = tlc_trace(run, "IngestTrace", "IngestTrace.cfg", ht, env={"PLAN": _empty(run)}, tag="svc")
        record_violations(run, pid, rep2["viol"], hl, trace_name="hostile")
        svc = {"batches": rep2["stats"]["svc"], "hostile": rep2["stats"]["hostile"], "cases": len(pick)}
        # ---- service level, frame-facing services: DHCP, router advertisements and LLDP on a veth pair
        frames = [c for c in cases if c["fmt"] in ("dhcp", "dhcphdr", "nd", "ndhdr", "lldp")]
        fpick = []
        strata = {}
        for c in frames:
            strata.setdefault((c["fmt"], c["k"]), []).append(c)
        for k, cs in sorted(strata.items()):
            fpick += cs if run.thorough or k[1] in ("hdr", "mgmt") else run.rng.sample(cs, min(len(cs), 300))
        run.rng.shuffle(fpick)
        fcases = [{"acls": None, "steps": [{"op": "probe"}] + sum(([{"op": "hostile", "cases": part}, {"op": "probe"}] for part in chunks(fpick, 400)), [])}]
        ff = run.path("frames.ndjson")
        open(ff, "w").write("".join(json.dumps(c) + "\n" for c in fcases))
        ft = run.path("frames-trace.ndjson")
        p = drive(run, "rig", ["full", "--cases", ff, "--out", ft], timeout=7200, check=False)
        fl = open(ft).readlines() if os.path.exists(ft) else []
        if not any('"ev":"svc"' in l for l in fl) and p.returncode != 0:
            raise ToolError("rig full did not start (exit %s): %s" % (p.returncode, (p.stderr or "")[-400:]))
        nprobes = 1 + len(list(chunks(fpick, 400)))
        if sum(1 for l in fl if '"ev":"svc"' in l) < nprobes:
            fl.append(json.dumps({"ev": "svc", "case": 0, "hostile": 0, "panics": 0, "alive": False, "answered": False,
                                  "detail": "the process hosting the DHCP / RA / LLDP services died (exit %s): %s" % (p.returncode, (p.stderr or "")[-300:].replace("\n", " "))}) + "\n")
            open(ft, "w").write("".join(fl))
        rep3 = tlc_trace(run, "IngestTrace", "IngestTrace.cfg", ft, env={"PLAN": _empty(run)}, tag="frames")
        record_violations(run, pid, rep3["viol"], fl, trace_name="frames", max_prefix=3)
        svc["frame_batches"] = rep3["stats"]["svc"]
        svc["frames"] = rep3["stats"]["hostile"]
        nfeeds = stats["feeds"]
        cov = {
            "evaluations": nfeeds + svc["hostile"] + svc["frames"], "traces_validated_against_impl": 3, "events_validated": len(lines) + len(hl),
            "states": run.mc["states"], "transitions": run.mc["transitions"],
            "distinct_nontrivial": len({json.dumps(c, sort_keys=True) for c in cases}),
            "rule": "case = one element of the WireGrammar product (TLC-enumerated: %d in the grammar, %d in this tier's plan): format x item kind x boundary length x fill x honesty of the declared length, DNS name shape x position, record type x rdlength, OPT placement, header field x boundary value; each assembled into a consistent packet and fed to every handler it applies to; plus every truncation point and 10 boundary octets at every offset of 6 seed packets, plus seeded random strings and multi-mutations; distinct_nontrivial counts distinct grammar cases only" % (ngrammar, len(cases)),
            "samples": [json.loads(lines[10]), json.loads(lines[len(lines) // 2]), json.loads(hl[-1]) if hl else {}],
            "function_level": stats, "service_level": svc, "exhaustive": False,
        }
        rc = finish(run, "exploration", cov, [
            "function level: handlers are called the way DhcpService::recvdhcp / the DNS listener and cache / radv / lldp call them, minus sockets (decode, the logging accessors, handle_pkt, reply framing, cache insert and later lookups); run in a child process so aborts and hangs are outcomes",
            "service level: real DnsService in a private namespace; hostile client datagrams over UDP/TCP (with lying TCP frames) and hostile upstream replies over UDP/TCP, then a valid query over UDP and TCP must be answered and no task may have panicked",
            "service level, frames: real DhcpService, RaAdvService and LldpService on one end of a veth pair in the private namespace; grammar cases sent as DHCP broadcasts, ICMPv6 messages (checksum made valid so that the kernel delivers them) and LLDP frames from a packet socket on the other end; then a DISCOVER and a router solicitation must be answered, no task may have panicked or ended; log records are formatted at level info as the shipped binaries do",
            "exploration: the input space is sampled by structure, not exhausted",
        ])
    except ToolError as e:
        log("TOOL-ERROR: %s" % e)
        return 2
    finally:
        run.cleanup()
    return rc
