"""bin/check <id> --replay <file>: judge a recorded replay (an NDJSON trace of the real code, as written next to a
VIOLATION line) again with the trace specification it came from.  The code is not run; this answers "does the
specification still reject this history?" -- after a repair the check itself has to be run."""
import json, os, sys
from common import *

# event kind -> (module, cfg)
BY_EVENT = [
    ({"msg", "reopen", "metrics", "list"}, "LeaseTrace"),
    ({"fileopen", "cmp", "kill", "alloc_set", "alloc_probe"}, "StoreTrace"),
    ({"dhcp_rt", "frame", "bcast"}, "DhcpWireTrace"),
    ({"wireframe"}, "DhcpFrameTrace"),
    ({"opts", "drain", "probe4"}, "PolicyTrace"),
    ({"dns_rt", "dns_emit", "dns_image"}, "DnsWireTrace"),
    ({"ins", "get", "gc"}, "DnsCacheTrace"),
    ({"req", "cookie", "cookie_live"}, "RateLimitTrace"),
    ({"acl"}, "AclTrace"),
    ({"ra"}, "RadvTrace"),
    ({"feed", "svc", "probe"}, "IngestTrace"),
    ({"load", "serve", "dns"}, "ConfTrace"),
    ({"listing", "gauges"}, "LeaseHttpTrace"),
    ({"csend", "crecv", "urecv", "usend"}, "ForwardTrace"),
]


def run(pid, path):
    if not os.path.exists(path):
        log("TOOL-ERROR: no such replay file %s" % path)
        return 2
    if path.endswith(".json"):
        d = json.load(open(path))
        log("replay %s: a violation observed outside a trace (%s): %s" % (path, d.get("shape"), str(d.get("detail"))[:300]))
        log("re-run `bin/check %s quick` to see whether the code still does this" % pid)
        return 0
    lines = open(path).readlines()
    hdr = json.loads(lines[0]) if lines and '"replay_of"' in lines[0] else {}
    body = lines[1:] if hdr else lines
    kinds = set()
    for l in body:
        try:
            kinds.add(json.loads(l).get("ev"))
        except ValueError:
            pass
    module = None
    for ks, m in BY_EVENT:
        if kinds & ks:
            module = m
            break
    if module == "ForwardTrace" and pid == "C06":
        module = "CacheE2ETrace"
    if module is None:
        log("TOOL-ERROR: cannot tell which trace specification %s belongs to (events: %s)" % (path, sorted(k for k in kinds if k)))
        return 2
    run_ = Run(pid, "quick")
    try:
        tf = run_.path("replay.ndjson")
        open(tf, "w").write("".join(body))
        empty = run_.path("empty.ndjson")
        open(empty, "w").close()
        cfg = module + ".cfg"
        ov = {}
        txt = open(os.path.join(SPEC, cfg)).read()
        if "Enforce" in txt:
            ov["Enforce"] = tla_set([pid])
        if module == "RateLimitTrace":
            import dns_ratelimit
            B, R = dns_ratelimit.impl_constants()
            ov.update({"ImplB": str(B), "ImplR": str(R)})
        rep = tlc_trace(run_, module, cfg, tf, ov, tag="replay", env={"PLAN": empty})
        viol = [v for v in rep["viol"] if v[0] == pid]
        log("replay of %s (%s, %d events, recorded shape %s): %d violation(s) of %s" % (path, module, len(body), hdr.get("shape", "?"), len(viol), pid))
        for v in viol[:10]:
            log("  line %s: %s" % (v[1], v[2]))
            log("VIOLATION property=%s replay=%s" % (pid, path))
        return 1 if viol else 0
    except ToolError as e:
        log("TOOL-ERROR: %s" % e)
        return 2
    finally:
        run_.cleanup()
