"""C06: DNS cache (spec/DnsCache.tla, MC_DnsCache.tla, DnsCacheTrace.tla)."""
import json
from common import *


def rand_scenario(rng):
    steps = []
    nvec = 12
    for _ in range(rng.randint(8, 30)):
        r = rng.random()
        q = {"name": rng.choice([0, 0, 0, 1, 2, 3, 4]), "qtype": rng.choice([1, 1, 1, 28, 15]),
             "do": rng.random() < 0.25, "cd": rng.random() < 0.25, "ad": rng.random() < 0.2}
        if r < 0.3:
            steps.append(dict(q, op="ins", vec=rng.randrange(nvec), rcode=rng.choice([0, 0, 0, 2, 3, 5])))
        elif r < 0.7:
            steps.append(dict(q, op="get"))
        elif r < 0.95:
            steps.append({"op": "adv", "ms": rng.choice([1, 250, 500, 999, 1000, 1001, 1500, 2000, 3000, 10000, 30000, 59999, 60000, 60001, 65000])})
        else:
            steps.append({"op": "gc"})
    return {"steps": steps}


def directed():
    out = []
    q = {"name": 0, "qtype": 1, "do": False, "cd": False}
    # every vector: lookups at minTTL-1s, minTTL-1ms, minTTL, minTTL+1ms, minTTL+1s, with near-miss keys in between
    for vec, mn, rcode in [(v, m, 0) for v, m in ((0, 1), (1, 1), (2, 2), (3, 0), (4, 2), (7, 60), (8, 30), (11, 10), (5, None), (6, 5), (9, None), (10, 0))] + \
                          [(0, 1, 2), (2, 2, 2), (6, 5, 2), (0, 1, 3), (6, 5, 5), (11, 10, 2)]:
        steps = [dict(q, op="ins", vec=vec, rcode=rcode), dict(q, op="get")]
        for nm in (dict(q, name=1), dict(q, qtype=28), dict(q, do=True), dict(q, cd=True), dict(q, name=2), dict(q, ad=True)):
            steps.append(dict(nm, op="get"))
        if mn:
            t = mn * 1000
            for d in (t - 1000, 999, 1, 1, 999):     # -> t-1000, t-1, t, t+1, t+1000
                if d > 0:
                    steps.append({"op": "adv", "ms": d})
                steps.append(dict(q, op="get"))
                steps.append(dict(q, name=1, op="get"))
            steps.append({"op": "gc"})
            steps.append(dict(q, op="get"))
        else:
            for d in (1000, 20000, 40000):
                steps.append({"op": "adv", "ms": d})
                steps.append(dict(q, op="get"))
        out.append({"steps": steps})
    # re-insert with a smaller TTL after expiry, without a sweep in between (and with one)
    for gc in (False, True):
        steps = [dict(q, op="ins", vec=11), {"op": "adv", "ms": 10001}, dict(q, op="get")] + ([{"op": "gc"}] if gc else []) + \
                [dict(q, op="ins", vec=1), dict(q, op="get"), {"op": "adv", "ms": 1001}, dict(q, op="get"), {"op": "adv", "ms": 4000}, dict(q, op="get")]
        out.append({"steps": steps})
    return out


def check(pid, tier):
    run = Run(pid, tier)
    try:
        build_harness()
        mc_must_pass(run, tlc_mc(run, "MC_DnsCache", "MC_DnsCache.cfg", workers=8, timeout=600, coverage=False))
        scen = directed() + [rand_scenario(run.rng) for _ in range(300 if not run.thorough else 6000)]
        total, nlines, samples = {}, 0, []
        for bi, part in enumerate(chunks(scen, 400)):
            sf = run.path("scen-%d.ndjson" % bi)
            open(sf, "w").write("".join(json.dumps(s) + "\n" for s in part))
            tf = run.path("trace-%d.ndjson" % bi)
            drive(run, "dnscache", ["--scenarios", sf, "--out", tf, "--seed", run.seed])
            lines = open(tf).readlines()
            rep = tlc_trace(run, "DnsCacheTrace", "DnsCacheTrace.cfg", tf, {"Enforce": tla_set([pid])}, tag="tv%d" % bi)
            record_violations(run, pid, rep["viol"], lines, trace_name="cache-b%d" % bi)
            run.drift += len(rep["drift"])
            if rep["drift"] and bi == 0:
                run.notes.append("first drift line %d: %s" % (rep["drift"][0], lines[rep["drift"][0] - 1][:300]))
            for k, v in rep["stats"].items():
                total[k] = total.get(k, 0) + v
            nlines += len(lines)
            if bi == 0:
                samples = [json.loads(l) for l in lines[1:5]]
        e2e = {}
        try:
            import dns_rig
            e2e = dns_rig.c06_e2e(run, pid)
        except (ImportError, AttributeError):
            run.notes.append("end-to-end part (real time, short TTLs, upstream query counts) not built yet")
        cov = {
            "states": run.mc["states"], "transitions": run.mc["transitions"],
            "traces_validated_against_impl": len(scen), "events_validated": nlines, "evaluations": len(scen),
            "distinct_nontrivial": len({scen_hash(s) for s in scen if sum(1 for st in s["steps"] if st["op"] == "get") >= 2}),
            "rule": "scenario = inserts (TTL vectors with different minima across the three sections, 0, 65536, 2^31, 2^32-1), lookups with exact and near-miss keys (name case, other name, type, DO, CD, AD each flipped alone), clock advances (1 ms .. 65 s, landing on minTTL-1s, -1ms, +0, +1ms, +1s) and sweeps, driven through the cache's own insert/lookup/expire code under tokio's paused clock; queries are wire bytes decoded by the crate; non-trivial = >=2 lookups, distinct by hash",
            "samples": samples, "counters": total, "e2e": e2e, "exhaustive": False,
        }
        rc = finish(run, "model_checking", cov, [
            "the hook VerifCache repeats the three lines of CacheHandler::handle_query around calculate_expiry / insert_cache_entry / get_entry; the resolver itself is exercised only end-to-end",
            "name equality in the key is ASCII case-insensitive (weaker reading); type, DO and CD must be identical",
            "virtual time: tokio's paused clock, advanced explicitly",
        ])
    except ToolError as e:
        log("TOOL-ERROR: %s" % e)
        return 2
    finally:
        run.cleanup()
    return rc
