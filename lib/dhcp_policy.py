"""C02 / C11: DHCP policy semantics (spec/DhcpPolicy.tla, PolicyTrace.tla)."""
import json
from common import *

N1 = 65536        # 10.1.0.0
N2 = 131072       # 10.2.0.0
OPT_CODES = [1, 2, 3, 6, 15, 26, 28, 42, 114, 119, 252]      # (252: an option code above 127)


def ipstr(x):
    v = 0x0A000000 + x
    return "%d.%d.%d.%d" % (v >> 24 & 255, v >> 16 & 255, v >> 8 & 255, v & 255)


def gen_addr_items(rng, with_subnet=True):
    items = []
    kinds = rng.sample(["range", "subnet", "single"], rng.choice([1, 1, 1, 2]))
    for k in kinds:
        base = rng.choice([N1, N1, N2])
        if k == "range":
            lo = base + rng.choice([0, 1, 2, 10, 100, 120, 200, 250])
            hi = min(lo + rng.choice([0, 1, 3, 9, 30, 60]), base + 255)
            items.append(["range", lo, hi])
        elif k == "subnet" and with_subnet:
            plen = rng.choice([24, 25, 26, 27, 28, 29, 30])
            a = base + rng.randrange(0, 256, 2 ** (32 - plen))
            items.append(["subnet", a, plen])
        else:
            x = base + rng.choice([1, 2, 5, 53, 110, 111, 126, 127, 128, 200, 253, 254])
            items.append(["single", x, x])
    return items


def gen_node(rng, depth, want_opts, leaf_bias=0.0):
    n = {"sub": [], "mac": 0, "host": 0, "a": [], "o": [], "k": []}
    r = rng.random()
    if r < 0.3:
        n["sub"] = rng.choice([[N1, 24], [N1, 25], [N1 + 128, 25], [N2, 24]])
    elif r < 0.55:
        n["mac"] = rng.choice([1, 2])
    elif r < 0.75:
        n["host"] = rng.choice([-1, 1, 2])
    elif r < 0.85:
        n["sub"] = rng.choice([[N1, 24], [N2, 24]])
        n["mac"] = rng.choice([1, 2])
    # else: no condition (applies only if a sub-policy does)
    condless = not (n["sub"] or n["mac"] or n["host"])
    if rng.random() < 0.6:
        n["a"] = gen_addr_items(rng)
    if want_opts:
        for c in rng.sample(OPT_CODES, rng.choice([0, 1, 2, 3])):
            n["o"].append([c, rng.choice([["v", 1], ["v", 2], ["null"]])])
    if depth < 3 and (rng.random() > leaf_bias or condless):
        for _ in range(rng.choice([0, 1, 2, 3]) if not condless else rng.choice([1, 2, 3])):
            n["k"].append(gen_node(rng, depth + 1, want_opts, leaf_bias + 0.25))
    if not (n["sub"] or n["mac"] or n["host"] or n["a"] or n["o"] or n["k"]):
        n["mac"] = 1
    return n


def gen_cfg(rng, want_opts, big=False, thorough=False):
    cfg = {"addresses": [], "addresses_yaml": [], "pol": [],
           "top": {"dns": ["self"], "search": ["empty"], "portal": ["null"]}}
    if rng.random() < 0.7 or big:
        plen = rng.choice([24, 25, 26, 27, 28, 29, 30]) if not big else rng.choice([8, 12, 16, 20, 21, 22, 23] if thorough else [13, 16, 20, 21, 22, 23])
        net = N1 if not big else 0          # 10.0.0.0/8.. for big ones
        if big and plen > 8:
            net = N1 - (N1 % (2 ** (32 - plen)))
        a = net + (rng.choice([0, 0, 53]) if True else 0)
        a = a if a - (a % 2 ** (32 - plen)) == net else net
        cfg["addresses"].append([a, plen])
        cfg["addresses_yaml"].append("%s/%d" % (ipstr(a), plen))
        if rng.random() < 0.3 and not big:
            cfg["addresses"].append([N2, 24])
            cfg["addresses_yaml"].append("%s/24" % ipstr(N2))
    if rng.random() < 0.3:
        cfg["addresses_yaml"].append('"2001:db8::/64"')     # IPv6 prefixes are ignored by DHCPv4
    if want_opts:
        r = rng.random()
        if r < 0.3:
            cfg["top"]["dns"] = ["v", rng.choice([1, 2])]
        elif r < 0.5:
            cfg["top"]["dns"] = ["selfplus"]
        if rng.random() < 0.5:
            cfg["top"]["search"] = ["v", rng.choice([1, 2])]
        if rng.random() < 0.4:
            cfg["top"]["portal"] = ["v", rng.choice([1, 2])]
    if not big:
        for _ in range(rng.choice([0, 1, 1, 2, 3])):
            cfg["pol"].append(gen_node(rng, 1, want_opts))
    elif rng.random() < 0.5:
        # a few reservations inside the big prefix
        kids = [{"sub": [], "mac": i + 1, "host": 0, "a": [["single", x, x]], "o": [], "k": []}
                for i, x in enumerate(rng.sample([cfg["addresses"][0][0] - (cfg["addresses"][0][0] % 2 ** (32 - cfg["addresses"][0][1])) + o for o in (1, 2, 77, 255, 256, 1000)], 2))]
        cfg["pol"].append({"sub": [], "mac": 0, "host": 0, "a": [], "o": [], "k": kids})
    return cfg


def server_ips(rng, cfg):
    ips = []
    if cfg["addresses"]:
        a, plen = cfg["addresses"][0]
        net = a - a % 2 ** (32 - plen)
        last = net + 2 ** (32 - plen) - 1
        ips += [net + 1, last - 1, net + min(2 ** (32 - plen) - 2, 5)]
    ips += [N1 + 1, N1 + 254, N1 + 200, N2 + 1, N2 + 254, 3 * 65536 + 1]
    return ips


def gen_case(rng, kind, thorough=False):
    big = kind == "probe"
    cfg = gen_cfg(rng, kind == "opts", big, thorough)
    reqs = []
    sips = server_ips(rng, cfg)
    for _ in range(3 if kind != "probe" else 2):
        r = {"ip": rng.choice(sips), "mac": rng.choice([1, 2, 3]), "host": rng.choice([0, 0, 1, 2]),
             "pl": [], "mtu": 0, "rtr": 0, "mode": {"drain": "drain", "probe": "probe", "opts": "serve"}[kind]}
        if kind == "opts":
            r["pl"] = rng.choice([[], OPT_CODES, rng.sample(OPT_CODES, 4), [1, 28, 3, 6], [200, 201], OPT_CODES + [129, 134, 154, 242, 247], [c + 128 for c in OPT_CODES if c + 128 < 255]])
            r["mtu"] = rng.choice([0, 1500, 1280])
            r["rtr"] = rng.choice([0, r["ip"] if rng.random() < 0.5 else N1 + 254])
            r["kind"] = rng.choice(["discover", "request"])
        if kind == "probe":
            a, plen = cfg["addresses"][0]
            net = a - a % 2 ** (32 - plen)
            last = net + 2 ** (32 - plen) - 1
            r["ip"] = rng.choice([net + 1, last - 1, net + 77, 2 ** 24 + 5])
            r["probe"] = sorted({net, net + 1, net + 2, net + 77, net + 255, net + 256, net + 1000, last - 2, last - 1, last, r["ip"]})
        reqs.append(r)
    return {"cfg": cfg, "reqs": reqs}


def manual_example():
    """The EXAMPLE of erbium.conf(5), transposed to the 10.x address plan."""
    cfg = {"addresses": [[N1, 24]], "addresses_yaml": ["%s/24" % ipstr(N1)],
           "top": {"dns": ["selfplus"], "search": ["v", 2], "portal": ["null"]},
           "pol": [{"sub": [], "mac": 0, "host": 0, "a": [], "o": [[42, ["v", 1]]], "k": [
               {"sub": [N2, 24], "mac": 0, "host": 0, "a": [["range", N2 + 100, N2 + 199]], "o": [], "k": [
                   {"sub": [], "mac": 1, "host": 0, "a": [["single", N2 + 110, N2 + 110]], "o": [[6, ["null"]]], "k": []},
                   {"sub": [], "mac": 2, "host": 0, "a": [["single", N2 + 111, N2 + 111]], "o": [[6, ["v", 1]]], "k": []}]},
               {"sub": [], "mac": 0, "host": 0, "a": [["subnet", 3 * 65536, 24]], "o": [], "k": [
                   {"sub": [], "mac": 1, "host": 0, "a": [], "o": [], "k": []},
                   {"sub": [], "mac": 2, "host": 0, "a": [], "o": [], "k": []}]}]}]}
    reqs = []
    for ip in (N1 + 254, N2 + 254, 3 * 65536 + 254):
        for mac in (1, 2, 3):
            reqs.append({"ip": ip, "mac": mac, "host": 0, "pl": [], "mtu": 0, "rtr": 0, "mode": "drain"})
            reqs.append({"ip": ip, "mac": mac, "host": 0, "pl": [1, 3, 6, 28, 42, 119], "mtu": 1500, "rtr": ip, "mode": "serve", "kind": "discover"})
    return {"cfg": cfg, "reqs": reqs}


KIND_OF = {"C02": ["drain", "probe"], "C11": ["opts"]}


def check(pid, tier):
    run = Run(pid, tier)
    try:
        build_harness()
        n = {"drain": 90, "probe": 40, "opts": 400} if not run.thorough else {"drain": 1500, "probe": 400, "opts": 8000}
        cases = [manual_example()]
        # (1) the model's own clauses, exhaustively over a family of configurations; (2) the same family as cases
        cfgname = "MC_DhcpPolicy.cfg" if run.thorough else "MC_DhcpPolicy_quick.cfg"
        mc = tlc_mc(run, "MC_DhcpPolicy", cfgname, workers=8, timeout=1500, coverage=False)
        mc_must_pass(run, mc)
        enum = []
        for line in mc.get("out_all", "").splitlines():
            if line.startswith('<<"CASE", '):
                enum.append(json.loads(json.loads(line[len('<<"CASE", '):-2])))
        if run.thorough and len(enum) > 6000:
            enum = run.rng.sample(enum, 6000)
        if not run.thorough and pid == "C02" and len(enum) > 350:
            enum = run.rng.sample(enum, 350)      # draining is the slow part; the model clauses were checked on all
        for e in enum:
            cfg = e["cfg"]
            cfg["addresses_yaml"] = ["%s/%d" % (ipstr(a), l) for a, l in cfg["addresses"]]
            r = dict(e["req"])
            r["pl"] = sorted(r["pl"])
            if pid == "C02":
                r["mode"] = "drain"
            else:
                r["mode"], r["kind"] = "serve", "discover"
            cases.append({"cfg": cfg, "reqs": [r]})
        n_enum = len(enum)
        for kind in KIND_OF[pid]:
            for _ in range(n[kind]):
                cases.append(gen_case(run.rng, kind, run.thorough))
        total, nlines, samples = {}, 0, []
        for bi, part in enumerate(chunks(cases, 150)):
            cf = run.path("cases-%d.ndjson" % bi)
            open(cf, "w").write("".join(json.dumps(c) + "\n" for c in part))
            tf = run.path("trace-%d.ndjson" % bi)
            drive(run, "policy", ["--cases", cf, "--out", tf])
            lines = open(tf).readlines()
            rep = tlc_trace(run, "PolicyTrace", "PolicyTrace.cfg", tf, {"Enforce": tla_set([pid])}, tag="tv%d" % bi)
            for v in rep["viol"]:
                if v[0] == "HARNESS":
                    raise ToolError("generated configuration rejected by the loader: %s" % lines[v[1] - 1][:400])
            record_violations(run, pid, rep["viol"], lines, trace_name="policy-b%d" % bi)
            for k, v in rep["stats"].items():
                total[k] = total.get(k, 0) + v
            nlines += len(lines)
            if bi == 0:
                samples = [json.loads(lines[0]), json.loads(lines[min(len(lines) - 1, 40)])]
        cov = {
            "evaluations": nlines,
            "distinct_nontrivial": len({json.dumps(c["cfg"], sort_keys=True) for c in cases if c["cfg"]["pol"] or c["cfg"]["addresses"]}),
            "rule": "case = (configuration: top-level addresses/defaults + policy tree of depth<=3, width<=3 over match-subnet/match-hardware-address/match-host-name(value|null) and apply-range/apply-subnet/apply-address/apply-<option>(value|null)) x 3 requests (receiving address, hardware address, host name, parameter list); rendered to YAML, loaded by the real loader, served by handle_pkt; C02: pool drained by fresh clients until refusal (or the default pool probed for prefixes /8../23), C11: reply options projected to symbolic values; TLC evaluates DhcpPolicy!Allowed / ModelOpts on each; non-trivial = configuration with at least one policy or prefix, distinct by JSON",
            "samples": samples, "counters": total,
            "traces_validated_against_impl": nlines, "states": run.mc["states"], "transitions": run.mc["transitions"],
            "tlc_enumerated_cases": n_enum,
            "exhaustive": False,
        }
        rc = finish(run, "model_checking", cov, [
            "DhcpPolicy.tla is an independent transcription of erbium.conf(5); cases the manual is silent on are not generated ($self4 inside policy lists, match-interface, duplicate keys) or accepted either way (empty default search list)",
            "the projection of reply option bytes onto symbolic values uses the harness's own RFC encoders",
            "pools larger than the drain limit are counted as inconclusive, never as violations",
        ])
    except ToolError as e:
        log("TOOL-ERROR: %s" % e)
        return 2
    finally:
        run.cleanup()
    return rc
