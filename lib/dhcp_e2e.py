"""Service-level part of C12: frames of the real DhcpService captured on the client end of the veth pair."""
import json
from common import *
import http_rig

FLAGS = [0, 1, 0x4000, 0x7fff, 0x8000, 0x8001, 0xc000, 0xffff]


def c12_cases(rng, n):
    cases = []
    for i in range(n):
        steps = []
        for k in range(12):
            ch = bytes([2, 0, 0x12, i & 255, k, rng.randrange(256)])
            flags = FLAGS[(i * 12 + k) % len(FLAGS)] if rng.random() < 0.8 else rng.randrange(65536)
            host = bytes(rng.randrange(32, 127) for _ in range(rng.choice([0, 3, 12, 63, 200]))).hex()
            # short and long replies in turn: the parameter list decides how many of the configured options come back
            plist = [[1, 3, 51, 54], [1, 3, 6, 15, 28, 51, 54, 114, 119], [1, 51], [1, 3, 6, 15, 26, 28, 42, 51, 54, 114, 119, 121]][k % 4]
            base = {"op": "dhcp", "chaddr": ch.hex(), "cid": (b"\x01" + ch).hex(), "host": host, "flags": flags, "plist": plist}
            steps.append(dict(base, mtype=1, tag="discover"))
            steps.append(dict(base, mtype=3, tag="request", req="offered", sid=[192, 0, 2, 1]))
        cases.append({"acls": None, "steps": steps})
    return cases


def c12_e2e(run, pid):
    cases = c12_cases(run.rng, 2 if not run.thorough else 40)
    tf, lines, p = http_rig.run_full(run, pid, cases, "c12")
    rep = tlc_trace(run, "DhcpFrameTrace", "DhcpFrameTrace.cfg", tf, tag="wire")
    record_violations(run, pid, rep["viol"], lines, trace_name="dhcpwire", max_prefix=4)
    if rep["stats"]["frames"] == 0:
        raise ToolError("the DHCP service did not answer a single exchange on the veth pair")
    return {"frames": rep["stats"]["frames"], "counters": rep["stats"]}
