"""C16: rate limiting of REFUSED and the cookie exemption (spec/DnsRateLimit.tla)."""
import json, re
from common import *


def scenarios(rng, n):
    out = []
    # floods at one instant and over a few seconds, idle gaps, mixtures
    out.append({"steps": [{"op": "req", "cost": 200} for _ in range(2500)]})
    out.append({"steps": sum([[{"op": "req", "cost": rng.choice([200, 250, 400, 1400])} for _ in range(60)] + [{"op": "adv", "d": 1}] for _ in range(30)], [])})
    out.append({"steps": [{"op": "adv", "d": 3600}, {"op": "req", "cost": 200}, {"op": "adv", "d": 3600}, {"op": "req", "cost": 200},
                          {"op": "adv", "d": 100000}, {"op": "req", "cost": 200}, {"op": "req", "cost": 200}]})
    for _ in range(n):
        steps = []
        for _ in range(rng.randint(20, 200)):
            if rng.random() < 0.7:
                steps.append({"op": "req", "cost": rng.choice([1, 10, 50, 100, 101, 200, 200, 200, 300, 1000, 1001, 5000, 65535])})
            else:
                steps.append({"op": "adv", "d": rng.choice([1, 1, 2, 10, 49, 50, 51, 100, 499, 500, 501, 3599, 3600, 3601, 86400])})
        out.append({"steps": steps})
    return out


def chunks_at_reset(lines, n):
    """split a bucket trace into parts of about n lines, cutting only in front of a reset event: a part that began in
    the middle of a scenario made the follower start from a full bucket and an idle source (false alarm
    quietSourceGetsNoRefused with seed 11, whose bucket trace was the first longer than one part)"""
    part = []
    for ln in lines:
        if len(part) >= n and '"ev":"reset"' in ln.replace(" ", ""):
            yield part
            part = []
        part.append(ln)
    if part:
        yield part


def impl_constants():
    """erbium's bucket constants, read from the source for the drift-only expectation"""
    src = open("/repo/crates/erbium-core/src/dns/bucket.rs").read()
    b = re.search(r"MAX_TOKENS: u32 = (\d+)", src)
    r = re.search(r"TOKENS_PER_SECOND: u32 = (\d+)", src)
    return (int(b.group(1)) if b else 100, int(r.group(1)) if r else 2)


def check(pid, tier):
    run = Run(pid, tier)
    try:
        build_harness()
        mc_must_pass(run, tlc_mc(run, "MC_DnsRateLimit", "MC_DnsRateLimit.cfg", workers=8, timeout=600, coverage=False))
        if run.thorough:
            mc_must_pass(run, tlc_mc(run, "MC_DnsRateLimit", "MC_DnsRateLimit_race.cfg", workers=12, timeout=900, coverage=False, tag="race"))
        refut = {}
        for name in ("racestrict", "mincost"):
            r = tlc_mc(run, "MC_DnsRateLimit", "MC_DnsRateLimit_%s.cfg" % name, workers=4, timeout=300, coverage=False, tag=name, expect_violation=True)
            refut[name] = (not r["ok"]) and r["violated"] is not None
        B, R = impl_constants()
        ov = {"Enforce": tla_set([pid]), "ImplB": str(B), "ImplR": str(R)}
        scen = scenarios(run.rng, 60 if not run.thorough else 1500)
        sf = run.path("scen.ndjson")
        open(sf, "w").write("".join(json.dumps(s) + "\n" for s in scen))
        t1, t2 = run.path("bucket.ndjson"), run.path("cookies.ndjson")
        drive(run, "ratelimit", ["bucket", "--scenarios", sf, "--out", t1])
        drive(run, "ratelimit", ["cookies", "--out", t2, "--seed", run.seed, "--n", 400 if not run.thorough else 6000])
        total, nlines, samples = {}, 0, []
        for i, t in enumerate((t1, t2)):
            lines = open(t).readlines()
            for j, part in enumerate(chunks_at_reset(lines, 6000) if i == 0 else chunks(lines, 6000)):
                pf = run.path("part-%d-%d.ndjson" % (i, j))
                # a part of the bucket trace starts with a reset so that the follower's bucket and its
                # "last request" time match the real one (cookie events are independent of each other)
                open(pf, "w").write("".join(part))
                rep = tlc_trace(run, "RateLimitTrace", "RateLimitTrace.cfg", pf, ov, tag="tv%d_%d" % (i, j))
                record_violations(run, pid, rep["viol"], part, trace_name="rl%d_%d" % (i, j))
                if j == 0:
                    run.drift += len(rep["drift"])
                for k, v in rep["stats"].items():
                    total[k] = total.get(k, 0) + v
            nlines += len(lines)
            samples.append(json.loads(lines[min(5, len(lines) - 1)]))
        e2e = {}
        try:
            import dns_rig
            e2e = dns_rig.c16_e2e(run, pid)
        except (ImportError, AttributeError):
            run.notes.append("end-to-end part (flood of refused queries at the real listener) not built yet")
        cov = {
            "states": run.mc["states"], "transitions": run.mc["transitions"],
            "traces_validated_against_impl": len(scen) + total.get("cookies", 0), "evaluations": nlines,
            "distinct_nontrivial": total.get("granted", 0) + total.get("crossaddr", 0) + total.get("prevkey", 0) + total.get("quiet", 0),
            "rule": "bucket: floods (2500 requests at one instant, 60/s for 30 s), idle gaps around the refill period and >= 1 h, random mixtures of costs 1..65535, against the real GenericTokenBucket with a virtual clock; cookies: a cookie issued under one of 4 keys for (client cookie, client address, server address) presented unchanged / truncated / bit-flipped / extended / absent by the same or another (cookie, address, server address) to a server holding (current, previous) keys, plus the live keys of the running process (own cookie, replay from another address, forgeries under all-zero / all-one / ASCII keys); non-trivial = granted requests + cross-address + previous-key + quiet-source cases",
            "samples": samples, "counters": total, "model_refutations": refut, "impl_constants": {"B": B, "R": R}, "e2e": e2e, "exhaustive": False,
        }
        rc = finish(run, "model_checking", cov, [
            "Bound is judged against the envelope burst 65536 tokens + 4096 tokens/s; erbium's own constants only produce drift notes",
            "Quiet: after >= 3600 s without any request a request of cost <= 200 (the minimum charge of a REFUSED) must be granted",
            "the limiter's two-bucket choice and the cost function are inline in dns/mod.rs and reached only end-to-end",
        ])
    except ToolError as e:
        log("TOOL-ERROR: %s" % e)
        return 2
    finally:
        run.cleanup()
    return rc
