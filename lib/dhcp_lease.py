"""Checks bound to spec/Lease.tla: C01 C09 C10 C13 (and the function-level
parts of C18 and C20, which observe the same store)."""
import json, os
from common import *


# ------------------------------------------------------------ scenarios ----
def _pools(rng, U):
    full = list(range(1, U + 1))
    ps = [full, full[: max(1, U // 2)], full[U // 2:], [rng.randint(1, U)], full[::2], full[1::2] or [1]]
    extra = sorted(rng.sample(full, rng.randint(1, U)))
    ps.append(extra)
    return [p for p in ps if p]


def rand_amap(rng, lvl, U):
    """index -> offset from 10.0.0.0: mixed digit widths, octet boundaries, sparse sets"""
    off = rng.choice([0, 0, 5, 7, 95, 250])
    if lvl == "pool" and rng.random() < 0.35:
        return sorted(rng.sample(range(1, 700), U))
    return [off + i for i in range(1, U + 1)]


def rand_scenario(rng, lvl, n):
    U = rng.choice([3, 3, 4, 5, 6, 9, 12])
    ncl = rng.choice([2, 3, 3, 4, 6]) if U <= 6 else rng.choice([4, 8, U, U + 2])
    pools = _pools(rng, U)
    minl, maxl = rng.choice([(2, 4), (2, 10), (5, 5), (1, 30), (3, 9), (4, 6)])
    if lvl == "pkt":
        minl, maxl = 300, 86400
    ticks = [1, 1, 1, 2, 3, minl - 1, minl, minl + 1, maxl, maxl + 1] if lvl == "pool" else \
            [1, 100, 150, 299, 300, 301, 450, 899, 900, 901, 2700, 86399, 86400, 86401, 100000]
    ticks = [t for t in ticks if t > 0]
    last_pool = {}
    guess = {}          # client -> addresses it was probably given (any address it asked about)
    steps = []
    for _ in range(rng.randint(12, 40)):
        r = rng.random()
        if r < 0.55:
            c = rng.randint(1, ncl)
            if c in last_pool and rng.random() < 0.55:
                P = last_pool[c]
            else:
                P = rng.choice(pools)
            last_pool[c] = P
            q = rng.random()
            if q < 0.3:
                req = 0
            elif q < 0.6 and guess.get(c):
                req = rng.choice(guess[c])
            elif q < 0.85:
                req = rng.choice(P)
            else:
                req = rng.randint(1, U)
            if req:
                guess.setdefault(c, []).append(req)
            else:
                guess.setdefault(c, []).extend(P[:1])
            st = {"k": "msg", "kind": rng.choice(["discover", "request"]), "c": c, "req": req, "P": P}
            if lvl == "pkt":
                if st["kind"] == "request":
                    st["sid"] = rng.choice([0, 0, 1, 1, 3, 2])
                    st["via"] = rng.choice(["req", "ciaddr"])
                st["flags"] = rng.choice([0, 0x8000, 0x0080, 0xffff])
                st["relay"] = rng.random() < 0.2
                if rng.random() < 0.05:
                    st["nopolicy"] = True
                if rng.random() < 0.05:
                    st["P"] = []
                if rng.random() < 0.3:
                    st["want"] = rng.choice([0, 1, 60, 299, 300, 301, 7200, 86400, 86401, 100000, 4294967295])
                if rng.random() < 0.3:
                    st["plist"] = rng.choice([[1, 3, 6, 15, 51, 54], [51], [], [1, 28, 2, 3, 15, 6, 119, 12, 44, 47, 26, 121, 42]])
                if rng.random() < 0.2:
                    st["hostname"] = [rng.randint(0, 255) for _ in range(rng.choice([0, 1, 5, 40]))]
                if rng.random() < 0.1:
                    st["vclass"] = rng.choice(["MSFT 5.0", "android-dhcp-13", ""])
            steps.append(st)
        elif r < 0.63 and lvl == "pkt":
            mt = rng.choice([-1, 0, 2, 4, 5, 6, 7, 8, 9, 13, 255, rng.randint(0, 255)])
            steps.append({"k": "msg", "kind": "other", "mtype": mt, "c": rng.randint(1, ncl),
                          "req": rng.choice([0, rng.randint(1, U)]), "P": rng.choice(pools),
                          "sid": rng.choice([0, 1, 2])})
        elif r < 0.75:
            steps.append({"k": "tick", "d": rng.choice(ticks)})
        elif r < 0.88:
            steps.append({"k": "tickto", "x": rng.randint(1, U), "off": rng.choice([-1, 0, 0, 1])})
        elif r < 0.92:
            steps.append({"k": "restart"})
        elif r < 0.96:
            steps.append({"k": "metrics"})
        else:
            steps.append({"k": "list"})
    sc = {"sc": "rand-%s-%d" % (lvl, n), "lvl": lvl, "U": U, "minl": minl, "maxl": maxl, "steps": steps,
          "amap": rand_amap(rng, lvl, U)}
    if lvl == "pkt" and rng.random() < 0.3:
        # a policy that sets the lease-time option itself (below the minimum, above the maximum, in between, or unset):
        # whatever it says, the reply must carry the length of the lease that was recorded, within the bounds
        sc["plt"] = rng.choice(["60", "2d", "1h", "null", "100000", "1"])
        for st in steps:
            if st["k"] == "msg" and rng.random() < 0.7:
                st["plist"] = rng.choice([[1, 3, 6, 15, 51, 54], [51]])
    return sc


def fill_scenario(rng, lvl, n):
    """A pool filled to the brim by distinct clients, then newcomers and returners."""
    U = rng.choice([6, 9, 12, 30])
    L = 2 if lvl == "pool" else 300
    full = list(range(1, U + 1))
    steps = []
    order = full[:]
    rng.shuffle(order)
    for i, x in enumerate(order):
        st = {"k": "msg", "kind": rng.choice(["discover", "request"]), "c": i + 1, "req": x if rng.random() < 0.7 else 0, "P": full}
        steps.append(st)
        if rng.random() < 0.1:
            steps.append({"k": "tick", "d": 1})
    for j in range(6):
        steps.append({"k": "msg", "kind": "discover", "c": U + 1 + j, "req": rng.choice([0, rng.choice(full)]), "P": full})
    steps.append({"k": "tickto", "x": rng.choice(full), "off": rng.choice([-1, 0, 1])})
    for j in range(8):
        steps.append({"k": "msg", "kind": rng.choice(["discover", "request"]), "c": rng.randint(1, U + 6), "req": rng.choice([0, rng.choice(full)]), "P": full})
    return {"sc": "fill-%s-%d" % (lvl, n), "lvl": lvl, "U": U, "minl": L, "maxl": 4 * L if lvl == "pool" else 86400, "steps": steps,
            "amap": rand_amap(rng, lvl, U)}


def directed_scenarios():
    """Hand-picked shapes the properties single out (roaming between pools,
    shrinking pools, exhaustion, boundary seconds, renewal rhythms)."""
    out = []
    for lvl in ("pool", "pkt"):
        L = 2 if lvl == "pool" else 300
        mk = lambda name, steps, U=3: out.append({"sc": "dir-%s-%s" % (lvl, name), "lvl": lvl, "U": U, "minl": L, "maxl": 2 * L if lvl == "pool" else 86400, "steps": steps})
        m = lambda c, req, P, kind="discover", **kw: dict({"k": "msg", "kind": kind, "c": c, "req": req, "P": P}, **kw)
        # roaming: lease in pool A, later lease in pool B, back to A while both live
        mk("roam", [m(1, 0, [3]), {"k": "tick", "d": 1}, m(1, 0, [1, 2]), m(1, 3, [3], "request"), m(1, 0, [3]), m(1, 0, [1, 2])])
        # exhaustion and takeover exactly at / around expiry
        for off in (-1, 0, 1):
            mk("boundary%d" % off, [m(1, 0, [1]), {"k": "tickto", "x": 1, "off": off}, {"k": "metrics"}, m(2, 1, [1]), m(2, 0, [1]), m(1, 1, [1], "request"), {"k": "metrics"}, {"k": "list"}])
        # pool shrinks under a client
        mk("shrink", [m(1, 0, [1, 2, 3]), m(2, 0, [1, 2, 3]), m(3, 0, [1, 2, 3]), m(1, 0, [1]), m(2, 0, [1]), m(3, 0, [1]), m(1, 1, [1, 2], "request")])
        # offer then request naming the offered address, by each client representation
        mk("offer-ack", [m(1, 0, [1, 2, 3]), m(1, 1, [1, 2, 3], "request"), m(2, 0, [1, 2, 3]), m(2, 2, [1, 2, 3], "request"), m(3, 0, [1, 2, 3]), m(3, 3, [1, 2, 3], "request"), m(1, 2, [1, 2, 3], "request"), {"k": "restart"}, m(2, 2, [1, 2, 3], "request"), {"k": "list"}, {"k": "metrics"}])
        # renewal rhythms: renew after 1, L/2, L-1, L, L+1
        for name, d in (("r1", 1), ("rhalf", max(1, L // 2)), ("rLm1", L - 1), ("rL", L), ("rLp1", L + 1)):
            steps = [m(1, 0, [1, 2])]
            for _ in range(8):
                steps += [{"k": "tick", "d": d}, m(1, 1, [1, 2], "request", via="ciaddr")]
            mk("renew-" + name, steps)
        # exact-rhythm renewals tracking the growing lease: renew at half of the current lease
        steps = [m(1, 0, [1, 2])]
        for _ in range(10):
            steps += [{"k": "tickto", "x": 1, "off": -1}, m(1, 1, [1, 2], "request")]
        mk("renew-late", steps)
        mk("empty-pool", [m(1, 0, []), m(1, 1, [], "request"), {"k": "metrics"}, {"k": "list"}])
    # C13: every message type on a populated table, with and without server-id
    base = [{"k": "msg", "kind": "discover", "c": 1, "req": 0, "P": [1, 2, 3]},
            {"k": "msg", "kind": "request", "c": 1, "req": 1, "P": [1, 2, 3], "sid": 1},
            {"k": "msg", "kind": "discover", "c": 2, "req": 0, "P": [1, 2, 3]}]
    for sid in (0, 1, 2, 3):
        steps = list(base)
        for mt in list(range(0, 256)) + [-1]:
            steps.append({"k": "msg", "kind": "other", "mtype": mt, "c": 1 + (mt % 3), "req": (mt % 4), "P": [1, 2, 3], "sid": sid,
                          "flags": 0x8000 if mt % 2 else 0, "relay": mt % 5 == 0})
        out.append({"sc": "dir-pkt-alltypes-sid%d" % sid, "lvl": "pkt", "U": 3, "steps": steps})
    steps = list(base)
    for c in (1, 2, 3):
        for kind in ("discover", "request"):
            steps.append({"k": "msg", "kind": kind, "c": c, "req": 1, "P": [1, 2, 3], "nopolicy": True})
            steps.append({"k": "msg", "kind": kind, "c": c, "req": 1, "P": []})
            steps.append({"k": "msg", "kind": kind, "c": c, "req": 1, "P": [1, 2, 3], "sid": 2})
    out.append({"sc": "dir-pkt-nopolicy", "lvl": "pkt", "U": 3, "steps": steps})
    return out


def tlc_scenarios(run, num, depth):
    hists = tlc_simulate(run, "LeaseGen", "LeaseGen.cfg", num, depth + 1, overrides={"Depth": str(depth)})
    out = []
    for i, h in enumerate(hists):
        amap = [[1, 2, 3], [8, 9, 10], [99, 100, 101], [254, 255, 256], [4, 30, 254]][i % 5]
        out.append({"sc": "tlc-pool-%d" % i, "lvl": "pool", "U": 3, "minl": 2, "maxl": 4, "steps": h, "amap": amap})
        if i % 2 == 0:
            # same behaviour through handle_pkt: model seconds scaled to the default lease bounds
            steps = []
            for s in h:
                s = dict(s)
                if s["k"] == "tick":
                    s["d"] = s["d"] * 150
                if s["k"] == "msg" and s.get("kind") == "request":
                    s["sid"] = (i // 2) % 2
                steps.append(s)
            out.append({"sc": "tlc-pkt-%d" % i, "lvl": "pkt", "U": 3, "steps": steps, "amap": amap if amap[2] - amap[0] == 2 else [9, 10, 11]})
    return out


# ----------------------------------------------------------------- check ----
LEVEL_TEXT = {
    "C01": "a reply never re-assigns an address whose recorded lease of another client is unexpired",
    "C09": "a client keeps the address it holds in the serving pool; refusal only on exhaustion",
    "C10": "lease time carried, within bounds, covered by the stored record",
    "C13": "only DISCOVER/REQUEST for this server are answered or change the store; replies echo the request",
    "C20": "get_leases() returns exactly the stored rows; the gauges equal |expiry > now| and |expiry <= now|, also on the empty store",
}


def check(pid, tier):
    run = Run(pid, tier)
    try:
        bt = build_harness()
        nsim, depth, nrand = (120, 18, 120) if not run.thorough else (1500, 30, 2500)
        scen = directed_scenarios() + tlc_scenarios(run, nsim, depth)
        for i in range(nrand):
            scen.append(rand_scenario(run.rng, "pool" if i % 3 else "pkt", i))
        for i in range(nrand // 6):
            scen.append(fill_scenario(run.rng, "pool" if i % 3 else "pkt", i))
        if pid == "C20":
            # observe after every step
            for s in scen:
                st2 = [{"k": "metrics"}, {"k": "list"}]
                for st in s["steps"]:
                    st2.append(st)
                    if st["k"] in ("msg", "tick", "tickto", "restart"):
                        st2 += [{"k": "metrics"}] + ([{"k": "list"}] if st["k"] != "tick" else [])
                s["steps"] = st2
        sf = run.path("scen.ndjson")
        with open(sf, "w") as fh:
            for s in scen:
                fh.write(json.dumps(s) + "\n")
        reports = []
        nlines = 0
        samples = []
        # drive and validate in batches (bounded trace size for TLC)
        batch = 400
        allstats = {}
        for bi, part in enumerate(chunks(scen, batch)):
            pf = run.path("scen-%d.ndjson" % bi)
            with open(pf, "w") as fh:
                for s in part:
                    fh.write(json.dumps(s) + "\n")
            tf = run.path("trace-%d.ndjson" % bi)
            drive(run, "dhcp", ["--scenarios", pf, "--out", tf, "--dbdir", run.path("db")])
            rep = tlc_trace(run, "LeaseTrace", "LeaseTrace.cfg", tf, {"Enforce": tla_set([pid])}, tag="tv%d" % bi)
            lines = open(tf).readlines()
            nlines += len(lines)
            run.drift += len(rep["drift"])
            for k, v in rep["stats"].items():
                allstats[k] = allstats.get(k, 0) + v
            record_violations(run, pid, rep["viol"], lines, trace_name="dhcp-b%d" % bi)
            if bi == 0:
                samples = [json.loads(l) for l in lines[1:6]]
                if rep["drift"]:
                    run.notes.append("first drift line (batch 0, line %d): %s" % (rep["drift"][0], lines[rep["drift"][0] - 1].strip()[:300]))
        # model checking of the design
        if run.thorough:
            mc_must_pass(run, tlc_mc(run, "MC_Lease", "MC_Lease.cfg", workers=12, timeout=1500, coverage=False))
            mc_must_pass(run, tlc_mc(run, "MC_Lease", "MC_Lease_quick.cfg", workers=12, timeout=900, coverage=True, tag="mccov"))
        else:
            mc_must_pass(run, tlc_mc(run, "MC_Lease", "MC_Lease_quick.cfg", workers=8, timeout=600, coverage=False))
        svc = {}
        if pid == "C20":
            import http_rig
            svc = http_rig.c20_http(run, pid)
        else:
            # the same histories through the real DhcpService: frames on a veth pair, configuration swapped live, the
            # service's own lease file read (and aged) through the harness's connection
            import http_rig
            pk = [s for s in scen if s.get("lvl") == "pkt" and not any(st["k"] == "msg" and st.get("relay") for st in s["steps"])]
            # the directed histories always (message types and server identifiers in sequence, boundary seconds, fills), the rest sampled
            dirs = [s for s in pk if s["sc"].startswith("dir-")]
            rest = [s for s in pk if not s["sc"].startswith("dir-")]
            pick = dirs + run.rng.sample(rest, min(len(rest), 45 if not run.thorough else 400))
            tf, sl, p = http_rig.run_full(run, pid, [{"acls": None, "lease": s, "steps": []} for s in pick], "lease")
            if not any('"lvl":"svc"' in l for l in sl):
                raise ToolError("rig full produced no service-level lease events (exit %s): %s" % (p.returncode, (p.stderr or "")[-300:]))
            lost = sum(1 for l in sl if '"ev":"undelivered"' in l)
            if lost:
                run.notes.append("%d frame(s) of the service-level lease scenarios were never counted by the service (not delivered); they are not events" % lost)
            rep = tlc_trace(run, "LeaseTrace", "LeaseTrace.cfg", tf, {"Enforce": tla_set([pid])}, tag="svc")
            record_violations(run, pid, rep["viol"], sl, trace_name="dhcp-svc")
            run.drift += len(rep["drift"])
            svc = {"scenarios": len(pick), "events": len(sl), "counters": rep["stats"]}
        nontrivial = sum(1 for s in scen if sum(1 for st in s["steps"] if st["k"] == "msg") >= 3 and
                         len({st["c"] for st in s["steps"] if st["k"] == "msg"}) >= 2)
        distinct = len({scen_hash(s["steps"]) for s in scen})
        cov = {
            "states": run.mc["states"], "transitions": run.mc["transitions"],
            "traces_validated_against_impl": len(scen),
            "events_validated": nlines,
            "evaluations": len(scen),
            "distinct_nontrivial": min(nontrivial, distinct),
            "rule": "scenario = sequence of DISCOVER/REQUEST/other messages, clock shifts, restarts replayed into the real Pool (level pool) or handle_pkt with YAML-loaded configs (level pkt); sources: directed shapes + TLC -simulate of LeaseGen (MC_Lease actions) + seeded random; non-trivial = >=3 messages from >=2 clients; distinct by hash of the step list",
            "samples": samples,
            "step_counters": allstats,
            "enforced_predicate": LEVEL_TEXT[pid],
            "harness_build_s": round(bt, 1),
            "service_level": svc,
            "exhaustive": False,
        }
        rc = finish(run, "model_checking", cov, [
            "TLC explores MC_Lease exhaustively only for the constants of its cfg (2-3 clients, 3 addresses, 4 pools, lease bounds 2..4 ticks, unbounded time via saturating ages)",
            "the harness reads the lease table with its own SQL through Pool::verif_conn and advances time by shifting stored timestamps; t0/t1 around each call are logged and predicates take the end of the interval that demands less of the code",
            "client identity is computed by the harness from what it put on the wire (client-id option if present, else hardware address)",
            "level pkt uses configurations loaded by the real YAML loader (apply-range + reservations carving holes)",
        ] + (["service level (C20): real DhcpService + http::run in a private namespace; leases created by DHCP exchanges over a veth pair (client identifiers and host names of arbitrary octets, 0..255 long), rows left by other histories inserted through the harness's own SQLite connection (NULL / empty / unparsable option blobs), expiry by ageing the rows; the listing is parsed by serde_json and compared row by row, the gauges are read from /metrics; judged by LeaseHttpTrace"] if pid == "C20" else []))
    except ToolError as e:
        log("TOOL-ERROR: %s" % e)
        return 2
    finally:
        run.cleanup()
    return rc
