SPECIFICATION Spec
CONSTANT Frames <- MCFrames
CONSTANT Legacy = FALSE
INVARIANT InOrder
INVARIANT AllAnswered
PROPERTY Terminates
CHECK_DEADLOCK FALSE
