SPECIFICATION Spec
CONSTANT Enforce = {"C08"}
INVARIANT Report
POSTCONDITION Consumed
CHECK_DEADLOCK FALSE
