------------------------------ MODULE LeaseGen ------------------------------
(***************************************************************************)
(* Scenario generator: the MC_Lease model run in TLC's simulation mode,    *)
(* recording only the INPUTS of each action (never outputs -- those must   *)
(* come from the implementation).  One SCENARIO line per behaviour.        *)
(* Arguments are drawn with RandomElement inside one disjunct per action   *)
(* kind, so messages, ticks, boundary ticks and restarts get comparable    *)
(* weight (TLC picks uniformly among successor states).                    *)
(***************************************************************************)
EXTENDS MC_Lease, Json, Randomization

CONSTANT Depth
VARIABLE hist
gvars == <<db, ev, hist>>

\* state-level on purpose: TLC would evaluate a constant-level RandomElement only once
Pick(S) == RandomElement({x \in S : Len(hist) >= 0})

GInit == Init /\ hist = <<>>

GMsg == \E k \in {Pick({"discover", "request"})}, c \in {Pick(Clients)},
           req \in {Pick(Addrs \cup {0})}, P \in {Pick(Pools)} :
          /\ Msg(k, c, req, P)
          /\ hist' = Append(hist, [k |-> "msg", kind |-> k, c |-> c, req |-> req, P |-> P])

\* a message about an address the client (model-)holds: renewals, roaming
GRenew == \E x \in {Pick(Addrs)}, P \in {Pick(Pools)},
             k \in {Pick({"discover", "request"})} :
          /\ db[x].c # 0
          /\ Msg(k, db[x].c, x, P)
          /\ hist' = Append(hist, [k |-> "msg", kind |-> k, c |-> db[x].c, req |-> x, P |-> P])

GIgnore == \E c \in {Pick(Clients)}, mt \in {Pick({0, 3, 4, 7, 8})} :
          /\ Ignore(c, mt, TRUE)
          /\ hist' = Append(hist, [k |-> "msg", kind |-> "other", c |-> c, req |-> 0,
                                   P |-> Pick(Pools), mtype |-> mt, sid |-> 2])

GTick == Tick /\ hist' = Append(hist, [k |-> "tick", d |-> 1])

\* jump to expiry(x) + off
GTickTo == \E x \in {Pick(Addrs)}, off \in {Pick({-1, 0, 1})} :
          LET d == db[x].L - db[x].age + off IN
          /\ db[x].c # 0 /\ d > 0
          /\ db' = [z \in Addrs |-> IF db[z].c = 0 THEN db[z]
                                    ELSE [db[z] EXCEPT !.age = Min2(@ + d, Cap)]]
          /\ ev' = [NoEv EXCEPT !.kind = "tick"]
          /\ hist' = Append(hist, [k |-> "tickto", x |-> x, off |-> off])

GRestart == Restart /\ hist' = Append(hist, [k |-> "restart"])
GObserve == UNCHANGED <<db, ev>> /\ hist' = Append(hist, [k |-> Pick({"metrics", "list"})])

GNext == GMsg \/ GMsg \/ GRenew \/ GIgnore \/ GTick \/ GTickTo \/ GRestart \/ GObserve
GSpec == GInit /\ [][GNext]_gvars

Emit == Len(hist) < Depth \/ PrintT(<<"SCENARIO", ToJson(hist)>>)
=============================================================================
