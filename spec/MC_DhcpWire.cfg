SPECIFICATION Spec
CONSTANTS
  Lens = {0, 1, 2, 254, 255, 256, 257, 509, 510, 511, 512, 765, 1500}
  Codes = {12, 43, 61, 250}
  MaxOpts = 3
INVARIANTS RefOK Emit
CHECK_DEADLOCK FALSE
