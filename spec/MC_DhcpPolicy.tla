---------------------------- MODULE MC_DhcpPolicy ----------------------------
(***************************************************************************)
(* Exhaustive enumeration of a family of configurations x requests:        *)
(*  (1) TLC checks the clauses of C02 on the DhcpPolicy MODEL itself       *)
(*      (never network/broadcast of a granted subnet, never the server's   *)
(*      own address, never an address reserved deeper for someone else,    *)
(*      single reservation = that address and no other, the documented     *)
(*      host addresses are all grantable) and of C11 (an option outside    *)
(*      the parameter list is never sent; null removes; inner overrides    *)
(*      outer),                                                            *)
(*  (2) every (configuration, request) is printed as a CASE for the        *)
(*      harness, which replays it into the real loader + handle_pkt.       *)
(***************************************************************************)
EXTENDS DhcpPolicy, TLC, Json
CONSTANTS Conds1, Conds2, Addrs1, Addrs2, Opts1, Opts2, Ips, Macs, Hosts, Plists, TopAddrs
VARIABLES c

N1 == 65536
N2 == 131072
Node(cond, a, o, kids) == [sub |-> cond.sub, mac |-> cond.mac, host |-> cond.host, a |-> a, o |-> o, k |-> kids]
CondOf(n) == CASE n = "none" -> [sub |-> <<>>, mac |-> 0, host |-> 0]
               [] n = "sub1" -> [sub |-> <<N1, 24>>, mac |-> 0, host |-> 0]
               [] n = "sub2" -> [sub |-> <<N2, 24>>, mac |-> 0, host |-> 0]
               [] n = "mac1" -> [sub |-> <<>>, mac |-> 1, host |-> 0]
               [] n = "mac2" -> [sub |-> <<>>, mac |-> 2, host |-> 0]
               [] n = "host1" -> [sub |-> <<>>, mac |-> 0, host |-> 1]
               [] n = "nohost" -> [sub |-> <<>>, mac |-> 0, host |-> -1]
AddrOf(n) == CASE n = "none" -> <<>>
               [] n = "range" -> <<<<"range", N1 + 100, N1 + 104>>>>
               [] n = "subnet30" -> <<<<"subnet", N1 + 100, 30>>>>
               [] n = "subnet29" -> <<<<"subnet", N1 + 96, 29>>>>
               [] n = "single" -> <<<<"single", N1 + 101, N1 + 101>>>>
               [] n = "single2" -> <<<<"single", N1 + 102, N1 + 102>>>>
               [] n = "edge" -> <<<<"range", N1 + 254, N1 + 255>>>>
OptOf(n) == CASE n = "none" -> <<>>
              [] n = "dns1" -> <<<<6, <<"v", 1>>>>>>
              [] n = "dns2" -> <<<<6, <<"v", 2>>>>>>
              [] n = "dnsnull" -> <<<<6, <<"null">>>>>>
              [] n = "masknull" -> <<<<1, <<"null">>>>>>
              [] n = "ntp" -> <<<<42, <<"v", 1>>>>, <<15, <<"v", 2>>>>>>
TopOf(n) == CASE n = "none" -> <<>>
              [] n = "n1_24" -> <<<<N1, 24>>>>
              [] n = "n1_24h" -> <<<<N1 + 53, 24>>>>
              [] n = "n1_28" -> <<<<N1 + 96, 28>>>>

Cases == {[c1 |-> c1, a1 |-> a1, o1 |-> o1, c2 |-> c2, a2 |-> a2, o2 |-> o2, c3 |-> c3, ip |-> ip, mac |-> m, host |-> h, pl |-> p, top |-> t] :
            c1 \in Conds1, a1 \in Addrs1, o1 \in Opts1, c2 \in Conds2, a2 \in Addrs2, o2 \in Opts2, c3 \in Conds2,
            ip \in Ips, m \in Macs, h \in Hosts, p \in Plists, t \in TopAddrs}

Cfg(x) == [addresses |-> TopOf(x.top),
           top |-> [dns |-> <<"self">>, search |-> <<"empty">>, portal |-> <<"null">>],
           pol |-> <<Node(CondOf(x.c1), AddrOf(x.a1), OptOf(x.o1),
                          <<Node(CondOf(x.c2), AddrOf(x.a2), OptOf(x.o2), <<>>),
                            Node(CondOf(x.c3), <<>>, <<>>, <<>>)>>)>>]
Req(x) == [ip |-> x.ip, mac |-> x.mac, host |-> x.host, pl |-> x.pl, mtu |-> 0, rtr |-> 0]

Init == c \in Cases
Next == UNCHANGED c
Spec == Init /\ [][Next]_c

A == Allowed(Cfg(c), Req(c))
W == Winner(Cfg(c), Req(c))
\* ---- C02 clauses on the model ----
NoNetBcastOfSubnet == \A i \in 1..Len(W.a) : W.a[i][1] = "subnet" =>
                         NetOf(W.a[i][2], W.a[i][3]) \notin A \/ (\E j \in 1..Len(W.a) : j # i /\ InItem(W.a[j], NetOf(W.a[i][2], W.a[i][3])))
NeverOwnAddress == Req(c).ip \notin A
ReservedExcluded == \A i \in 1..Len(W.k) : \A x \in A : ~InUsed(W.k[i], x)
SingleIsExact == (W # NoPool /\ Len(W.a) = 1 /\ W.a[1][1] = "single") => A \subseteq {W.a[1][2]}
HostsGrantable == \A i \in 1..Len(W.a) : W.a[i][1] = "subnet" =>
                    \A x \in (NetOf(W.a[i][2], W.a[i][3]) + 1)..(LastOf(W.a[i][2], W.a[i][3]) - 1) :
                       x \in A \/ x = Req(c).ip \/ (\E j \in 1..Len(W.k) : InUsed(W.k[j], x))
                       \/ (IsDefault(W) /\ \E j \in 1..Len(Cfg(c).pol) : InUsed(Cfg(c).pol[j], x))
C02Model == W # NoPool => NoNetBcastOfSubnet /\ NeverOwnAddress /\ ReservedExcluded /\ SingleIsExact /\ HostsGrantable
\* ---- C11 clauses on the model ----
M == ModelOpts(Cfg(c), Req(c))
OnlyRequested == \A o \in M : o[1] \in Req(c).pl
NullRemoves == \A o \in M : o[2] # <<"null">>
\* inner overrides outer: if the (applicable) sub-policy sets dns, the outer value is not what is sent
InnerWins == LET p == Cfg(c).pol[1] IN
             (Applies(p, Req(c)) /\ FirstApplicable(p.k, Req(c)) = 1 /\ 6 \in Req(c).pl /\ \E i \in 1..Len(p.k[1].o) : p.k[1].o[i][1] = 6)
               => \A o \in M : o[1] = 6 => \E i \in 1..Len(p.k[1].o) : p.k[1].o[i] = o
C11Model == OnlyRequested /\ NullRemoves /\ InnerWins

Emit == PrintT(<<"CASE", ToJson([cfg |-> Cfg(c), req |-> [ip |-> Req(c).ip, mac |-> Req(c).mac, host |-> Req(c).host,
                                                           pl |-> Req(c).pl, mtu |-> 0, rtr |-> 0]])>>)
=============================================================================
