SPECIFICATION Spec
CONSTANT Enforce = {"C17"}
INVARIANT Report
POSTCONDITION Consumed
CHECK_DEADLOCK FALSE
