SPECIFICATION Spec
CONSTANT Frames <- MCFrames
CONSTANT Legacy = TRUE
INVARIANT InOrder
INVARIANT AllAnswered
PROPERTY Terminates
CHECK_DEADLOCK FALSE
