----------------------------- MODULE ForwardTrace -----------------------------
(***************************************************************************)
(* Trace validation of the end-to-end DNS rig: the real DnsService with    *)
(* real clients and scripted upstreams (harness driver `rig dns`).         *)
(* Decides, per client query, at the end of each case:                     *)
(*   C03  relayed answers are faithful to the upstream reply               *)
(*   C04  every response well-formed and within the transport's limit      *)
(*   C07  exactly one reply, its own, from the address it was sent to      *)
(*   C08  (DNS binding) recursion only for clients the ACL grants it to    *)
(*   C15  routing by longest suffix, any order, any case                   *)
(* using Acl!Granted and DnsRoute!Outcomes as oracles.                     *)
(***************************************************************************)
EXTENDS Acl, DnsRoute, TLC, Json, IOUtils
CONSTANT Enforce
Rec == ndJsonDeserialize(IOEnv.TRACE)
N == Len(Rec)
VARIABLES l, ctx, sent, got, none, urecv, usent, viol, stats
vars == <<l, ctx, sent, got, none, urecv, usent, viol, stats>>
SetOf(s) == {s[i] : i \in 1..Len(s)}
Max2(a, b) == IF a >= b THEN a ELSE b

Rule(r) == [any |-> r.any, subnets |-> r.subnets, unix |-> r.unix, perms |-> SetOf(r.perms)]
NoTtl(r) == <<r[1], r[2], r[3], r[6], r[7]>>
TtlLe(a, b) == a[4] < b[4] \/ (a[4] = b[4] /\ a[5] <= b[5])
SameRecs(a, b, exactTtl) == Len(a) = Len(b) /\ \A i \in 1..Len(a) : NoTtl(a[i]) = NoTtl(b[i]) /\ TtlLe(a[i], b[i]) /\ (exactTtl => a[i] = b[i])
\* the answer of a reply: the upstream's answer section, or -- when the reply is truncated (TC) -- a prefix of it
OwnAnswer(r, S) == IF r.tc = 1 THEN Len(r.an) <= Len(S.an) /\ SameRecs(r.an, SubSeq(S.an, 1, Len(r.an)), FALSE)
                   ELSE SameRecs(r.an, S.an, FALSE)

\* judgement of one query at the end of its case
Judge(q) ==
    LET s == sent[q]
        R == IF q \in DOMAIN got THEN got[q] ELSE <<>>
        U == {u \in urecv : u.tok = s.tok}
        S == IF s.tok \in DOMAIN usent THEN usent[s.tok] ELSE [none |-> TRUE]
        hasS == "none" \notin DOMAIN S
        rules == [i \in 1..Len(ctx.acls) |-> Rule(ctx.acls[i])]
        allowed == ctx.open \/ Granted(rules, s.client, "dns-recursion")
        outs == Outcomes(ctx.routes, s.name, s.rd)
        fwd == \E o \in outs : o.kind = "forward"
        first == R[1]
        \* --- C08 (dns): a refused client is answered REFUSED (or not at all) and nothing leaves for upstream
        c08 == IF allowed THEN (Len(R) >= 1 /\ fwd => first.rcode # 5)
               \* (a name that other clients ask too -- s.cached -- cannot be attributed at the upstream: there only the
               \*  answer counts, REFUSED and not the cached data)
               ELSE (\A i \in 1..Len(R) : R[i].rcode = 5) /\ (s.cached \/ U = {})
        c08shape == IF allowed THEN "refusedThoughFirstMatchGrants"
                    ELSE IF U # {} /\ ~s.cached THEN "refusedQueryForwardedOrAnswered" ELSE "grantedThoughFirstMatchLacksPermission"
        \* --- C15: some acceptable outcome of the routing model is what happened
        matches(o) == CASE o.kind = "nxdomain" -> Len(R) >= 1 /\ first.rcode = 3 /\ U = {}
                        [] o.kind = "servfail" -> Len(R) >= 1 /\ first.rcode = 2 /\ U = {}
                        [] o.kind = "refused"  -> U = {} /\ (Len(R) = 0 \/ first.rcode = 5)
                        [] o.kind = "forward"  -> (U # {} \/ s.cached) /\ \A u \in U : u.up = o.up
        c15 == allowed => \E o \in outs : matches(o)
        c15shape == IF fwd /\ U = {} /\ Len(R) >= 1 /\ first.rcode = 2 /\ s.mixedcase THEN "mixedCaseNameMissesRoute"
                    ELSE IF \E u \in U : ~\E o \in outs : o.kind = "forward" /\ o.up = u.up THEN "queryWentToWrongUpstreamOrBlockedNameForwarded"
                    ELSE IF fwd /\ U = {} THEN "forwardRouteNotTaken"
                    ELSE "outcomeDiffersFromLongestSuffixRoute"
        \* --- C07: exactly one reply, its own, from where it was sent, in bounded time
        \* a hang-up fails everybody waiting on that connection (DnsForward!TcpTeardown, the set `hurt`): queries that were
        \* outstanding when an upstream they are routed to hung up may get a server failure though their own answer was fine
        hurt == \E u \in urecv : /\ u.proto = "close" /\ (\E o \in outs : o.kind = "forward" /\ o.up = u.up)
                                  /\ s.t <= u.nth + 2 /\ (Len(R) = 0 \/ u.nth <= first.t + 2)
        answering == fwd /\ allowed /\ s.upkind \notin {"silent", "close"} /\ s.drops < 4 /\ ~hurt
        \* a REFUSED that the upstream gave is relayed as REFUSED, and REFUSED replies are rate limited per client address
        \* (C16): such a query may stay without a reply -- by design, not a lost reply
        refusedUpstream == fwd /\ hasS /\ S.rcode = 5
        c07 == (allowed /\ \E o \in outs : o.kind \in {"forward", "nxdomain", "servfail"}) =>
                 \/ (refusedUpstream /\ Len(R) = 0)
                 \/ /\ Len(R) = 1
                    /\ first.from_ok /\ first.id = s.id /\ first.qd = s.qd /\ first.qr = 1
                    /\ first.t - s.t <= 60000
                    /\ (answering /\ hasS => first.rcode = S.rcode /\ OwnAnswer(first, S))
                    /\ (answering /\ first.rcode = 2 => hasS /\ S.rcode = 2)       \* no failure without an upstream fault
                    /\ (fwd /\ s.upkind \in {"silent", "close"} => first.rcode = 2)       \* silence, or the upstream hanging up: a server failure
                    /\ Cardinality({u \in U : u.proto = "udp"}) <= 5
        c07shape == IF Len(R) = 0 THEN (IF s.listener = "v4" /\ s.proto = "udp" THEN "noReplyOnIpv4OnlyUdpListener"
                                        ELSE IF s.pipelined THEN "noReplyToQueryOnSharedOrSegmentedTcpConnection" ELSE "noReply")
                    ELSE IF Len(R) > 1 THEN "moreThanOneReply"
                    ELSE IF ~first.from_ok THEN "replyFromOtherAddressThanQueried"
                    ELSE IF first.id # s.id \/ first.qd # s.qd THEN "replyIsNotForThisQuery"
                    ELSE IF answering /\ first.rcode = 2 /\ ~(hasS /\ S.rcode = 2) THEN (IF s.forced THEN "serverFailureAfterUpstreamTcpIdCollision" ELSE "serverFailureThoughUpstreamAnswered")
                    ELSE IF answering /\ hasS /\ ~OwnAnswer(first, S) THEN "answerOfAnotherQuestion"
                    ELSE IF Cardinality({u \in U : u.proto = "udp"}) > 5 THEN "tooManyTransmissions" ELSE "replyLateOrWrongFailureCode"
        \* --- C03: what was relayed is what the upstream said
        relayed == fwd /\ allowed /\ Len(R) >= 1 /\ hasS /\ first.rcode = S.rcode /\ first.tc = 0 /\ (S.rcode # 2)
        c03 == relayed => /\ first.id = s.id /\ first.qd = s.qd /\ first.qr = 1
                          /\ SameRecs(first.an, S.an, ~s.cached) /\ SameRecs(first.ns, S.ns, ~s.cached) /\ SameRecs(first.ar, S.ar, ~s.cached)
        c03shape == IF first.id # s.id \/ first.qd # s.qd \/ first.qr # 1 THEN "idQuestionOrQrWrong"
                    ELSE IF ~SameRecs(first.an, S.an, FALSE) THEN "answerSectionDiffers"
                    ELSE IF ~SameRecs(first.ns, S.ns, FALSE) THEN (IF SameRecs(first.ns, S.an, FALSE) THEN "authoritySectionIsCopyOfAnswer" ELSE "authoritySectionDiffers")
                    ELSE IF ~SameRecs(first.ar, S.ar, FALSE) THEN "additionalSectionDiffers" ELSE "ttlChangedOnUncachedAnswer"
        \* --- C04: every response well-formed and within the limit of its transport
        limit == IF s.proto = "udp" THEN Max2(512, s.adv) ELSE 65535
        \* nothing omitted: every record the upstream gave, and the OPT record a query with EDNS is owed (it is the last
        \* record of the message, so it is the first to go when the answer does not fit)
        full(r) == hasS /\ Len(r.an) >= Len(S.an) /\ Len(r.ns) >= Len(S.ns) /\ Len(r.ar) >= Len(S.ar) /\ (s.edns => r.opt >= 1)
        relayedAny(r) == fwd /\ allowed /\ hasS /\ r.rcode = S.rcode /\ S.rcode # 2
        c04one(r) == /\ r.parse_ok /\ r.len <= limit
                     /\ (relayedAny(r) => ((r.tc = 1) <=> ~full(r)))
                     /\ ((s.proto = "tcp" /\ relayedAny(r) /\ S.len + 100 <= 65535) => r.tc = 0)
        c04 == \A i \in 1..Len(R) : c04one(R[i])
        c04shape == IF \E i \in 1..Len(R) : ~R[i].parse_ok THEN "responseMalformed"
                    ELSE IF \E i \in 1..Len(R) : R[i].len > limit THEN "udpResponseLargerThanAdvertised"
                    ELSE IF s.proto = "tcp" THEN "tcpResponseTruncatedThoughItFits" ELSE "tcFlagWrong"
    IN {<<"C08", s.line, c08shape>> : x \in {1} \cap (IF c08 THEN {} ELSE {1})}
       \cup {<<"C15", s.line, c15shape>> : x \in {1} \cap (IF c15 THEN {} ELSE {1})}
       \cup {<<"C07", s.line, c07shape>> : x \in {1} \cap (IF c07 THEN {} ELSE {1})}
       \cup {<<"C03", s.line, c03shape>> : x \in {1} \cap (IF c03 THEN {} ELSE {1})}
       \cup {<<"C04", s.line, c04shape>> : x \in {1} \cap (IF c04 THEN {} ELSE {1})}

Fun1(k, v) == [x \in {k} |-> v]
Put(f, k, v) == [x \in (DOMAIN f) \cup {k} |-> IF x = k THEN v ELSE f[x]]

Init == l = 1 /\ ctx = [open |-> TRUE, acls |-> <<>>, routes |-> <<>>, forced |-> FALSE] /\ sent = <<>> /\ got = <<>> /\ none = {} /\ urecv = {} /\ usent = <<>>
        /\ viol = {} /\ stats = [cases |-> 0, queries |-> 0, replies |-> 0, noreply |-> 0, urecv |-> 0, tcp |-> 0, denied |-> 0, panics |-> 0]
Step ==
    /\ l <= N /\ l' = l + 1
    /\ LET e == Rec[l] IN
       CASE e.ev = "case" ->
              /\ ctx' = [open |-> e.open, acls |-> e.acls, routes |-> e.routes, forced |-> e.forced]
              /\ sent' = <<>> /\ got' = <<>> /\ none' = {} /\ urecv' = {} /\ usent' = <<>>
              /\ stats' = [stats EXCEPT !.cases = @ + 1] /\ UNCHANGED viol
         [] e.ev = "csend" ->
              /\ sent' = Put(sent, e.q, [line |-> l, t |-> e.t, id |-> e.id, qd |-> e.qd, tok |-> e.tok, name |-> e.name, rd |-> e.rd,
                                         client |-> e.client, listener |-> e.listener, proto |-> e.proto, adv |-> e.adv, edns |-> e.edns, pipelined |-> e.pipelined,
                                         upkind |-> e.upkind, drops |-> e.drops, cached |-> e.cached, mixedcase |-> e.mixedcase, forced |-> ctx.forced])
              /\ stats' = [stats EXCEPT !.queries = @ + 1, !.tcp = @ + (IF e.proto = "tcp" THEN 1 ELSE 0)]
              /\ UNCHANGED <<ctx, got, none, urecv, usent, viol>>
         [] e.ev = "crecv" ->
              /\ got' = Put(got, e.q, (IF e.q \in DOMAIN got THEN got[e.q] ELSE <<>>) \o <<e>>)
              /\ stats' = [stats EXCEPT !.replies = @ + 1] /\ UNCHANGED <<ctx, sent, none, urecv, usent, viol>>
         [] e.ev = "cnone" ->
              /\ none' = none \cup {e.q} /\ stats' = [stats EXCEPT !.noreply = @ + 1] /\ UNCHANGED <<ctx, sent, got, urecv, usent, viol>>
         [] e.ev = "urecv" ->
              /\ urecv' = urecv \cup {[tok |-> e.tok, up |-> e.up, proto |-> e.proto, nth |-> e.nth]}
              /\ stats' = [stats EXCEPT !.urecv = @ + 1] /\ UNCHANGED <<ctx, sent, got, none, usent, viol>>
         [] e.ev = "usend" /\ e.kind \in {"close", "halfclose"} ->
              \* the upstream hung up on its TCP connection at time e.t (kept with the upstream records, proto "close")
              /\ urecv' = urecv \cup {[tok |-> "(hangup)", up |-> e.up, proto |-> "close", nth |-> e.t]}
              /\ UNCHANGED <<ctx, sent, got, none, usent, viol, stats>>
         [] e.ev = "usend" /\ e.kind \notin {"drop", "reordered", "close", "halfclose", "raw"} /\ e.kind # "tc" ->
              /\ usent' = Put(usent, e.tok, [rcode |-> e.rcode, an |-> e.an, ns |-> e.ns, ar |-> e.ar, len |-> e.len])
              /\ UNCHANGED <<ctx, sent, got, none, urecv, viol, stats>>
         [] e.ev = "endcase" ->
              /\ viol' = viol \cup UNION {Judge(q) : q \in DOMAIN sent}
              /\ stats' = [stats EXCEPT !.panics = @ + e.panics] /\ UNCHANGED <<ctx, sent, got, none, urecv, usent>>
         [] OTHER -> UNCHANGED <<ctx, sent, got, none, urecv, usent, viol, stats>>
Spec == Init /\ [][Step]_vars
Report == l = N + 1 => PrintT(<<"REPORT", ToJson([viol |-> {v \in viol : v[1] \in Enforce}, drift |-> {}, lines |-> N, stats |-> stats])>>)
Consumed == TLCGet("stats").diameter = N + 1
=============================================================================
