---------------------------- MODULE RateLimitTrace ----------------------------
(***************************************************************************)
(* Trace validation for C16.                                               *)
(*  req     one refused reply of `cost` tokens put to the real bucket      *)
(*          (check, then deplete if granted) under a virtual clock         *)
(*  cookie  a server cookie issued under key ik for (cc, caddr, saddr),    *)
(*          possibly mangled, presented by (cc', caddr', saddr') to a      *)
(*          server holding keys (cur, prev): status good/bad/missing       *)
(*  cookie_live  the same against the server's live keys                   *)
(* Bound is judged against a fixed envelope (EnvBurst, EnvRate) -- the     *)
(* statement asks for *a* fixed burst and rate, not erbium's constants;    *)
(* the exact arithmetic (ImplB, ImplR) only produces drift notes.          *)
(***************************************************************************)
EXTENDS DnsRateLimit, TLC, Json, IOUtils
CONSTANTS Enforce, EnvBurst, EnvRate, QuietIdle, QuietCost, ImplB, ImplR
Rec == ndJsonDeserialize(IOEnv.TRACE)
N == Len(Rec)
VARIABLES l, z, grants, last, viol, drift, stats
vars == <<l, z, grants, last, viol, drift, stats>>
T0 == 1000000        \* the driver's clock starts here (model time = t + T0)

Req(e) ==
    LET now == e.t + T0
        g2 == IF e.pass THEN Append(grants, <<e.t, e.cost>>) ELSE grants
        \* keep the ghost log short: windows are judged incrementally (those ending at the newest grant)
        g3 == IF Len(g2) > 400 THEN SubSeq(g2, Len(g2) - 399, Len(g2)) ELSE g2
        okBound == e.pass => BoundNew(g2, EnvBurst, EnvRate)
        idleFor == e.t - last
        okQuiet == (idleFor >= QuietIdle /\ e.cost <= QuietCost) => e.pass
        bad == e.outcome # "ok" \/ e.deplete = "panic" \/ ~okBound \/ ~okQuiet
        shape == IF e.outcome # "ok" \/ e.deplete = "panic" THEN "bucketPanics"
                 ELSE IF ~okBound THEN "refusedVolumeExceedsBurstPlusRate" ELSE "quietSourceGetsNoRefused"
        exp == CheckOK(z, now, e.cost, ImplB, ImplR)
    IN /\ viol' = IF bad THEN viol \cup {<<"C16", l, shape>>} ELSE viol
       /\ drift' = IF e.outcome = "ok" /\ e.pass # exp THEN drift \cup {l} ELSE drift
       /\ z' = IF e.pass THEN Depleted(z, now, e.cost, ImplB, ImplR) ELSE z
       /\ grants' = g3
       /\ last' = e.t
       /\ stats' = [stats EXCEPT !.reqs = @ + 1, !.granted = @ + (IF e.pass THEN 1 ELSE 0),
                                 !.quiet = @ + (IF idleFor >= QuietIdle /\ e.cost <= QuietCost THEN 1 ELSE 0)]

CookieEv(e) ==
    LET same == e.presented = <<e.issued[2], e.issued[3], e.issued[4]>>
        exempt == e.mangle = "none" /\ same /\ e.issued[1] \in {e.cur, e.prev}
        \* a client cookie without a server part is read as an empty server cookie by erbium: "bad", not "missing"
        expected == IF exempt THEN "good" ELSE "bad"
        bad == e.outcome # "ok" \/ (e.status = "good") # exempt
        shape == IF e.outcome # "ok" THEN "cookieValidationPanics"
                 ELSE IF e.status = "good" THEN (IF ~same THEN "cookieAcceptedFromOtherClientOrAddress"
                                                 ELSE IF e.mangle # "none" THEN "mangledCookieAccepted" ELSE "cookieOfOlderKeyAccepted")
                 ELSE "validCookieRejected"
    IN /\ viol' = IF bad THEN viol \cup {<<"C16", l, shape>>} ELSE viol
       /\ drift' = IF e.outcome = "ok" /\ e.status # expected THEN drift \cup {l} ELSE drift
       /\ stats' = [stats EXCEPT !.cookies = @ + 1, !.good = @ + (IF e.status = "good" THEN 1 ELSE 0),
                                 !.prevkey = @ + (IF exempt /\ e.issued[1] # e.cur THEN 1 ELSE 0),
                                 !.crossaddr = @ + (IF ~same /\ e.mangle = "none" /\ e.issued[1] \in {e.cur, e.prev} THEN 1 ELSE 0)]
       /\ UNCHANGED <<z, grants, last>>

Live(e) ==
    LET want == e.kind = "issued_by_this_server"
        bad == (e.status = "good") # want
        shape == IF want THEN "ownLiveCookieRejected" ELSE IF e.kind = "replayed_from_other_address" THEN "cookieAcceptedFromOtherClientOrAddress"
                 ELSE "cookieNotIssuedByThisServerAccepted"
    IN /\ viol' = IF bad THEN viol \cup {<<"C16", l, shape>>} ELSE viol
       /\ stats' = [stats EXCEPT !.live = @ + 1]
       /\ UNCHANGED <<z, grants, last, drift>>

\* the exemption at the real listener: a flood from the source that was issued the cookie is answered (80 % allows
\* for datagrams lost in the burst); the same cookie from another address, a mangled one, or a bare client cookie is
\* not exempt -- those floods are also recorded as ordinary bursts and judged against the bound
CookieFlood(e) ==
    LET bad == IF e.kind = "own" THEN e.answered * 10 < e.sent * 8 ELSE e.answered * 2 > e.sent
        shape == IF e.kind = "own" THEN "sourceWithItsOwnServerCookieRateLimited" ELSE "floodWithForeignOrMangledCookieNotLimited"
    IN /\ viol' = IF bad THEN viol \cup {<<"C16", l, shape>>} ELSE viol
       /\ stats' = [stats EXCEPT !.live = @ + 1]
       /\ UNCHANGED <<z, grants, last, drift>>

Init == l = 1 /\ z = 0 /\ grants = <<>> /\ last = 0 /\ viol = {} /\ drift = {} /\
        stats = [reqs |-> 0, granted |-> 0, quiet |-> 0, cookies |-> 0, good |-> 0, prevkey |-> 0, crossaddr |-> 0, live |-> 0]
Step == /\ l <= N /\ l' = l + 1
        /\ LET e == Rec[l] IN
           CASE e.ev = "reset" -> z' = 0 /\ grants' = <<>> /\ last' = 0 - QuietIdle /\ UNCHANGED <<viol, drift, stats>>
             [] e.ev = "req" -> Req(e)
             [] e.ev = "cookie" -> CookieEv(e)
             [] e.ev = "cookie_live" -> Live(e)
             [] e.ev = "cookie_flood" -> CookieFlood(e)
             [] OTHER -> UNCHANGED <<z, grants, last, viol, drift, stats>>
Spec == Init /\ [][Step]_vars
Report == l = N + 1 => PrintT(<<"REPORT", ToJson([viol |-> {v \in viol : v[1] \in Enforce}, drift |-> drift, lines |-> N, stats |-> stats])>>)
Consumed == TLCGet("stats").diameter = N + 1
=============================================================================
