---------------------------- MODULE DnsCacheTrace ----------------------------
(***************************************************************************)
(* Trace validation for C06.  The follower keeps its own record of what    *)
(* the cache was given (every reply obtained, with its birth time)         *)
(* and judges every lookup by DnsCache!C06Lookup / C06Expired.             *)
(* Keys: k = <<digest of the lower-cased name, type, DO, CD>> ("same DNS   *)
(* name" = ASCII case-insensitive, the reading that demands less),         *)
(* x = the same with the exact name (identity of the inserted entry).      *)
(***************************************************************************)
EXTENDS DnsCache, TLC, Json, IOUtils
CONSTANT Enforce
Rec == ndJsonDeserialize(IOEnv.TRACE)
N == Len(Rec)
VARIABLES l, given, viol, drift, stats
vars == <<l, given, viol, drift, stats>>

\* given: set of [k, x, ttls, birth]
InsAt(t) == {[k |-> g.k, ttls |-> g.ttls, age |-> t - g.birth] : g \in given}
Get(e) ==
    LET ins == InsAt(e.t)
        bad1 == e.outcome # "ok" \/ ~C06Lookup(ins, e.k, e.hit, e.served)
        bad2 == ~C06Expired(ins, e.k, e.hit)
        shape == IF e.outcome # "ok" THEN "lookupPanics"
                 ELSE IF bad1 THEN C06Shape(ins, e.k, e.hit, e.served) ELSE "servedPastTtl"
        \* implementation-shaped expectation: hit iff the exact key was stored and is within its lifetime
        \* the entry erbium holds for this exact key: the latest insert that was stored
        held == {g \in given : g.x = e.x /\ ImplStores(g.ttls)}
        expHit == \E g \in held : (\A h \in held : h.n <= g.n) /\ ImplHit(g.ttls, e.t - g.birth)
    IN /\ viol' = IF bad1 \/ bad2 THEN viol \cup {<<"C06", l, shape>>} ELSE viol
       /\ drift' = IF e.outcome = "ok" /\ e.hit # expHit THEN drift \cup {l} ELSE drift
       /\ stats' = [stats EXCEPT !.gets = @ + 1, !.hits = @ + (IF e.hit THEN 1 ELSE 0),
                      !.boundary = @ + (IF \E g \in given : g.k = e.k /\ g.ttls # <<>> /\ (e.t - g.birth) = 1000 * MinTtl(g.ttls)[2] /\ MinTtl(g.ttls)[1] = 0 THEN 1 ELSE 0),
                      !.nearmiss = @ + (IF (\E g \in given : g.k[1] = e.k[1] /\ g.k # e.k) THEN 1 ELSE 0),
                      !.casevariant = @ + (IF \E g \in given : g.k = e.k /\ g.x # e.x THEN 1 ELSE 0)]
       /\ UNCHANGED given
Ins(e) ==
    \* every reply ever obtained is remembered: a later reply that is not stored (TTL 0) leaves the earlier one valid
    /\ given' = given \cup {[k |-> e.k, x |-> e.x, ttls |-> e.ttls, birth |-> e.t, n |-> l]}
    /\ viol' = IF e.outcome # "ok" THEN viol \cup {<<"C06", l, "insertPanics">>} ELSE viol
    /\ stats' = [stats EXCEPT !.ins = @ + 1]
    /\ UNCHANGED drift

Init == l = 1 /\ given = {} /\ viol = {} /\ drift = {} /\
        stats = [gets |-> 0, hits |-> 0, ins |-> 0, boundary |-> 0, nearmiss |-> 0, casevariant |-> 0]
Step == /\ l <= N /\ l' = l + 1
        /\ LET e == Rec[l] IN
           CASE e.ev = "reset" -> given' = {} /\ UNCHANGED <<viol, drift, stats>>
             [] e.ev = "ins" -> Ins(e)
             [] e.ev = "get" -> Get(e)
             [] OTHER -> UNCHANGED <<given, viol, drift, stats>>
Spec == Init /\ [][Step]_vars
Report == l = N + 1 => PrintT(<<"REPORT", ToJson([viol |-> {v \in viol : v[1] \in Enforce}, drift |-> drift, lines |-> N, stats |-> stats])>>)
Consumed == TLCGet("stats").diameter = N + 1
=============================================================================
