SPECIFICATION Spec
CONSTANTS
  RowIds <- MCRowIds
  InitFiles <- MCInitFiles
  Atomic <- AtomicC
  AtomicC = TRUE
INVARIANTS TypeOK C18b C18c C18d VersionHonest Emit
PROPERTY C18a
CHECK_DEADLOCK FALSE
