----------------------------- MODULE MC_DnsCache -----------------------------
(***************************************************************************)
(* Exhaustive model of the cache: every interleaving of inserts (TTL       *)
(* vectors with different minima across sections, including 0), lookups    *)
(* with exact and near-miss keys, half-second clock steps and expiry       *)
(* sweeps, for two names.  Ages saturate once an entry can never be served *)
(* again, so time is unbounded and the state space finite.                 *)
(***************************************************************************)
EXTENDS DnsCache, TLC
CONSTANTS Keys, TtlVecs, StepMs, MaxTtl
VARIABLES cache, ev
vars == <<cache, ev>>
Cap == (MaxTtl + 2) * 1000
MCTtlVecs == {<<<<0, 1>>>>, <<<<0, 2>>, <<0, 1>>>>, <<<<0, 3>>, <<0, 3>>, <<0, 2>>>>, <<<<0, 2>>, <<0, 0>>>>, <<<<1, 0>>, <<0, 2>>>>}
None == [ttls |-> <<>>, age |-> 0]
Init == cache = [k \in Keys |-> None] /\ ev = [op |-> "init"]
\* the resolver obtained a reply for k: stored unless its lifetime is zero
Insert(k, v) == /\ cache' = IF ImplStores(v) THEN [cache EXCEPT ![k] = [ttls |-> v, age |-> 0]] ELSE cache
                /\ ev' = [op |-> "ins", k |-> k, ttls |-> v]
Lookup(k) == LET e == cache[k]  hit == ImplHit(e.ttls, e.age) IN
             /\ ev' = [op |-> "get", k |-> k, hit |-> hit, served |-> IF hit THEN Aged(e.ttls, e.age) ELSE <<>>]
             /\ UNCHANGED cache
Tick == /\ cache' = [k \in Keys |-> IF cache[k].ttls = <<>> THEN cache[k]
                                    ELSE [cache[k] EXCEPT !.age = IF @ + StepMs > Cap THEN Cap ELSE @ + StepMs]]
        /\ ev' = [op |-> "tick"]
\* the sweep removes entries whose expiry lies in the past
Expire == /\ cache' = [k \in Keys |-> IF cache[k].ttls # <<>> /\ ~ImplHit(cache[k].ttls, cache[k].age) THEN None ELSE cache[k]]
          /\ ev' = [op |-> "gc"]
Next == (\E k \in Keys, v \in TtlVecs : Insert(k, v)) \/ (\E k \in Keys : Lookup(k)) \/ Tick \/ Expire
Spec == Init /\ [][Next]_vars
View == cache

\* ghost reading of the cache as "what was inserted": the entry as it stood before the step
Ins(c) == {[k |-> k, ttls |-> c[k].ttls, age |-> c[k].age] : k \in {x \in Keys : c[x].ttls # <<>>}}
P06 == [][ev'.op = "get" => /\ C06Lookup(Ins(cache), ev'.k, ev'.hit, ev'.served)
                            /\ C06Expired(Ins(cache), ev'.k, ev'.hit)]_vars
\* non-vacuity witnesses (expected to be violated)
WitnessHitAtBoundary == [][~(ev'.op = "get" /\ ev'.hit /\ \E i \in 1..Len(ev'.served) : ev'.served[i] = <<0, 0>>)]_vars
=============================================================================
