---------------------------- MODULE DnsTcpStream ----------------------------
(***************************************************************************)
(* The client side of DNS over TCP (RFC 7766) as the listener sees it: a   *)
(* connection carries a stream of frames (two length octets + message),    *)
(* and TCP delivers the stream in segments of any size.  The listener      *)
(* (dns/mod.rs run_tcp) must answer every complete frame exactly once, in  *)
(* order, whatever the segmentation, and nothing else.                     *)
(*                                                                         *)
(* Frames == the message lengths the client sends on one connection.       *)
(* Legacy = TRUE models the listener before commit a8ec77c: one read() for *)
(* the length (gives up unless both octets are in the first segment it     *)
(* sees), one query per connection.  TLC refutes AllAnswered for it.       *)
(***************************************************************************)
EXTENDS Integers, Sequences, FiniteSets, TLC
CONSTANTS Frames, Legacy
ASSUME Frames \in Seq(Nat \ {0})

RECURSIVE Sum(_)
Sum(s) == IF s = <<>> THEN 0 ELSE Head(s) + Sum(Tail(s))
Total == Sum([i \in 1..Len(Frames) |-> 2 + Frames[i]])

VARIABLES sent,      \* octets of the stream the network has delivered to the listener's socket so far
          taken,     \* octets the listener has consumed
          phase,     \* "len" | "body" | "closed"
          cur,       \* index of the frame being read
          replies,   \* frames answered, in order
          eof        \* the client has sent everything and half-closed
vars == <<sent, taken, phase, cur, replies, eof>>

Init == sent = 0 /\ taken = 0 /\ phase = "len" /\ cur = 1 /\ replies = <<>> /\ eof = FALSE

\* the network delivers the next k octets (any segmentation)
Deliver == /\ sent < Total /\ \E k \in 1..(Total - sent) : sent' = sent + k
           /\ UNCHANGED <<taken, phase, cur, replies, eof>>
ClientDone == /\ sent = Total /\ ~eof /\ eof' = TRUE /\ UNCHANGED <<sent, taken, phase, cur, replies>>

Avail == sent - taken
\* read_exact: proceeds only when all octets asked for are there
ReadLen == /\ phase = "len" /\ cur <= Len(Frames)
           /\ IF Legacy
              THEN \* a single read(): whatever is there now, at least one octet; fewer than two => connection dropped
                   /\ Avail >= 1
                   /\ IF Avail >= 2 THEN taken' = taken + 2 /\ phase' = "body" ELSE phase' = "closed" /\ UNCHANGED taken
              ELSE /\ Avail >= 2 /\ taken' = taken + 2 /\ phase' = "body"
           /\ UNCHANGED <<sent, cur, replies, eof>>
ReadBody == /\ phase = "body" /\ Avail >= Frames[cur]
            /\ taken' = taken + Frames[cur] /\ replies' = Append(replies, cur) /\ cur' = cur + 1
            /\ phase' = IF Legacy THEN "closed" ELSE "len"       \* the old listener closed after one answer
            /\ UNCHANGED <<sent, eof>>
\* end of stream while waiting for a length: the client is done
Close == /\ phase = "len" /\ eof /\ Avail = 0 /\ phase' = "closed" /\ UNCHANGED <<sent, taken, cur, replies, eof>>
Next == Deliver \/ ClientDone \/ ReadLen \/ ReadBody \/ Close
Spec == Init /\ [][Next]_vars /\ WF_vars(ReadLen) /\ WF_vars(ReadBody) /\ WF_vars(Close) /\ WF_vars(Deliver) /\ WF_vars(ClientDone)

\* never an answer out of order, twice, or for a frame that is not complete yet
InOrder == /\ replies = [i \in 1..Len(replies) |-> i]
           /\ \A i \in 1..Len(replies) : Sum([j \in 1..i |-> 2 + Frames[j]]) <= sent
\* when the connection is over, every frame the client sent has been answered
AllAnswered == phase = "closed" => Len(replies) = Len(Frames)
\* and it does get over
Terminates == <>(phase = "closed")
=============================================================================
