SPECIFICATION Spec
INVARIANT Report
POSTCONDITION Done
CHECK_DEADLOCK FALSE
