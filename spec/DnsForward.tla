------------------------------ MODULE DnsForward ------------------------------
(***************************************************************************)
(* Forwarding of client queries to an upstream resolver                    *)
(* (crates/erbium-core/src/dns/outquery.rs, dns/mod.rs).  One action per   *)
(* step of the code:                                                       *)
(*  ClientSend      handle_query_internal: draw a 16-bit upstream id; UDP  *)
(*                  clients go to send_udp, TCP clients to the shared TCP  *)
(*                  channel of the upstream                                *)
(*  Timeout         send_udp's timer: retransmit on a fresh socket (at     *)
(*                  most MaxTx transmissions), then give up (SERVFAIL)     *)
(*  UpstreamUdp     the upstream (adversary) consumes a query datagram and *)
(*                  drops it, answers it, answers with a wrong id or TC,   *)
(*                  or answers twice                                       *)
(*  ErbiumUdpRecv   first datagram back on an attempt's socket: answer ->  *)
(*                  reply to the client; wrong id / TC -> retry over TCP   *)
(*  TcpSend         TcpNameserver::send_tcp_query: register the waiter     *)
(*                  under the id (qid2reply) -- an id already waiting is   *)
(*                  an `assert!` that kills the per-upstream task for good *)
(*  UpstreamTcp     the upstream answers a TCP query (any order)           *)
(*  ErbiumTcpRecv   handle_reply: route by id to the waiter                *)
(*  TcpTeardown     idle / error teardown: every waiter gets an error      *)
(* Replies seen by client q are recorded in replies[q].                    *)
(***************************************************************************)
EXTENDS Integers, Sequences, FiniteSets

CONSTANTS Queries, Ids, MaxTx, Faults, TcpClients, AllowCollision,
          Remap      \* TRUE: an id already outstanding is replaced by a free one (the repaired code)

VARIABLES st, oid, tx, qnet, rnet, tcpq, tcpr, waiters, chan, replies, faults, hurt, collided
vars == <<st, oid, tx, qnet, rnet, tcpq, tcpr, waiters, chan, replies, faults, hurt, collided>>
Kinds == {"ok", "wrong", "tc"}

Init == /\ st = [q \in Queries |-> "idle"] /\ oid = [q \in Queries |-> 0] /\ tx = [q \in Queries |-> 0]
        /\ qnet = [q \in Queries |-> 0] /\ rnet = [q \in Queries |-> [k \in Kinds |-> 0]]
        /\ tcpq = {} /\ tcpr = {} /\ waiters = [i \in Ids |-> 0] /\ chan = "up"
        /\ replies = [q \in Queries |-> <<>>] /\ faults = Faults /\ hurt = {} /\ collided = FALSE

Deliver(q, what, rs) == [rs EXCEPT ![q] = Append(@, what)]
\* when a query completes, whatever of it is still in flight is ignored by erbium (sockets closed)
Finish(q) == /\ qnet' = [qnet EXCEPT ![q] = 0] /\ rnet' = [rnet EXCEPT ![q] = [k \in Kinds |-> 0]]

\* registration on the shared TCP channel under id `want` (the id drawn for the out query)
TcpSend(q, want) ==
    LET free == {j \in Ids : waiters[j] = 0}
        id == IF waiters[want] = 0 \/ ~Remap THEN want ELSE IF free = {} THEN 0 ELSE CHOOSE j \in free : TRUE
    IN
    IF chan = "dead" \/ id = 0
    THEN /\ replies' = Deliver(q, "servfail", replies) /\ st' = [st EXCEPT ![q] = "done"]
         /\ oid' = oid /\ hurt' = IF id = 0 THEN hurt \cup {q} ELSE hurt      \* no free id: "too many outstanding queries"
         /\ UNCHANGED <<waiters, chan, tcpq, tcpr, collided>>
    ELSE IF waiters[id] # 0
    THEN \* assert!(qid2reply.insert(..).is_none()) fails: the task dies, every waiter and the newcomer see an error
         LET W == {w \in Queries : st[w] = "tcp"} \cup {q} IN
         /\ replies' = [x \in Queries |-> IF x \in W THEN Append(replies[x], "servfail") ELSE replies[x]]
         /\ st' = [x \in Queries |-> IF x \in W THEN "done" ELSE st[x]]
         /\ oid' = oid /\ hurt' = hurt
         /\ waiters' = [i \in Ids |-> 0] /\ chan' = "dead" /\ tcpq' = {} /\ tcpr' = {} /\ collided' = TRUE
    ELSE /\ waiters' = [waiters EXCEPT ![id] = q] /\ tcpq' = tcpq \cup {q} /\ st' = [st EXCEPT ![q] = "tcp"]
         /\ oid' = [oid EXCEPT ![q] = id] /\ hurt' = hurt
         /\ UNCHANGED <<chan, replies, tcpr, collided>>

ClientSend(q) ==
    /\ st[q] = "idle"
    /\ \E i \in Ids :
         IF q \in TcpClients
         THEN TcpSend(q, i) /\ UNCHANGED <<tx, qnet, rnet>>
         ELSE /\ oid' = [oid EXCEPT ![q] = i]
              /\ st' = [st EXCEPT ![q] = "udp"] /\ tx' = [tx EXCEPT ![q] = 1] /\ qnet' = [qnet EXCEPT ![q] = 1]
              /\ UNCHANGED <<rnet, tcpq, tcpr, waiters, chan, replies, collided, hurt>>
    /\ UNCHANGED faults

Timeout(q) ==
    /\ st[q] = "udp"
    /\ IF tx[q] < MaxTx
       THEN /\ tx' = [tx EXCEPT ![q] = @ + 1] /\ qnet' = [qnet EXCEPT ![q] = @ + 1]
            /\ UNCHANGED <<st, rnet, replies>>
       ELSE /\ replies' = Deliver(q, "servfail", replies) /\ st' = [st EXCEPT ![q] = "done"] /\ Finish(q) /\ UNCHANGED tx
    \* every transmission unanswered in time: the upstream was too slow or lossy for this query
    /\ hurt' = IF tx[q] < MaxTx THEN hurt ELSE hurt \cup {q}
    /\ UNCHANGED <<oid, tcpq, tcpr, waiters, chan, faults, collided>>

UpstreamUdp(q) ==
    /\ qnet[q] > 0
    /\ qnet' = [qnet EXCEPT ![q] = @ - 1]
    /\ \/ /\ rnet' = [rnet EXCEPT ![q]["ok"] = @ + 1] /\ UNCHANGED <<faults, hurt>>                   \* honest answer
       \/ /\ faults > 0 /\ faults' = faults - 1 /\ hurt' = hurt \cup {q}
          /\ \/ UNCHANGED rnet                                                                        \* loss
             \/ rnet' = [rnet EXCEPT ![q]["wrong"] = @ + 1]
             \/ rnet' = [rnet EXCEPT ![q]["tc"] = @ + 1]
             \/ rnet' = [rnet EXCEPT ![q]["ok"] = @ + 2]                                              \* duplicate
    /\ UNCHANGED <<st, oid, tx, tcpq, tcpr, waiters, chan, replies, collided>>

ErbiumUdpRecv(q, k) ==
    /\ rnet[q][k] > 0
    /\ IF st[q] # "udp"
       THEN rnet' = [rnet EXCEPT ![q][k] = @ - 1] /\ UNCHANGED <<st, oid, tx, qnet, tcpq, tcpr, waiters, chan, replies, collided, hurt>>
       ELSE IF k = "ok"
       THEN /\ replies' = Deliver(q, "ans", replies) /\ st' = [st EXCEPT ![q] = "done"] /\ Finish(q)
            /\ UNCHANGED <<oid, tx, tcpq, tcpr, waiters, chan, collided, hurt>>
       ELSE /\ TcpSend(q, oid[q]) /\ Finish(q) /\ UNCHANGED tx
    /\ UNCHANGED faults

UpstreamTcp(q) ==
    /\ q \in tcpq /\ chan = "up"
    /\ tcpq' = tcpq \ {q} /\ tcpr' = tcpr \cup {<<oid[q], q>>}
    /\ UNCHANGED <<st, oid, tx, qnet, rnet, waiters, chan, replies, faults, hurt, collided>>

ErbiumTcpRecv(r) ==
    /\ r \in tcpr /\ chan = "up"
    /\ tcpr' = tcpr \ {r}
    /\ LET w == waiters[r[1]] IN
       IF w = 0 THEN UNCHANGED <<st, waiters, replies>>
       ELSE /\ replies' = Deliver(w, IF w = r[2] THEN "ans" ELSE "other", replies)
            /\ st' = [st EXCEPT ![w] = "done"] /\ waiters' = [waiters EXCEPT ![r[1]] = 0]
    /\ UNCHANGED <<oid, tx, qnet, rnet, tcpq, chan, faults, hurt, collided>>

\* the upstream stays silent on the connection: after the idle timers every waiter gets an error
TcpTeardown ==
    /\ chan = "up" /\ \E i \in Ids : waiters[i] # 0
    /\ faults > 0 /\ faults' = faults - 1
    /\ LET W == {waiters[i] : i \in {j \in Ids : waiters[j] # 0}} IN
       /\ replies' = [x \in Queries |-> IF x \in W THEN Append(replies[x], "servfail") ELSE replies[x]]
       /\ st' = [x \in Queries |-> IF x \in W THEN "done" ELSE st[x]]
       /\ hurt' = hurt \cup W
    /\ waiters' = [i \in Ids |-> 0] /\ tcpq' = {} /\ tcpr' = {}
    /\ UNCHANGED <<oid, tx, qnet, rnet, chan, collided>>

Next == \/ \E q \in Queries : ClientSend(q) \/ Timeout(q) \/ UpstreamUdp(q) \/ UpstreamTcp(q)
        \/ \E q \in Queries, k \in Kinds : ErbiumUdpRecv(q, k)
        \/ \E r \in tcpr : ErbiumTcpRecv(r)
        \/ TcpTeardown
Fairness == /\ \A q \in Queries : WF_vars(Timeout(q)) /\ WF_vars(UpstreamTcp(q)) /\ WF_vars(ClientSend(q))
            /\ \A q \in Queries, k \in Kinds : WF_vars(ErbiumUdpRecv(q, k))
            /\ WF_vars(\E r \in tcpr : ErbiumTcpRecv(r))
Spec == Init /\ [][Next]_vars
FairSpec == Spec /\ Fairness

(* ------------------------------ properties ----------------------------- *)
AtMostOne == \A q \in Queries : Len(replies[q]) <= 1
Own == \A q \in Queries : \A i \in 1..Len(replies[q]) : replies[q][i] \in {"ans", "servfail"}
\* a query whose path saw no fault gets its answer, not a failure.  Known finding C07-2: the id
\* collision on the shared TCP channel fails queries (and all later TCP queries) without any fault.
Served == \A q \in Queries : (replies[q] = <<"servfail">> /\ q \notin hurt) => (AllowCollision /\ collided)
MaxTransmissions == \A q \in Queries : tx[q] <= MaxTx
Answered == \A q \in Queries : (st[q] # "idle") ~> (Len(replies[q]) = 1)
=============================================================================
