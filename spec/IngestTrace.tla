------------------------------ MODULE IngestTrace ------------------------------
(***************************************************************************)
(* C05 follower.  The ingest model: a handler applied to a byte string has *)
(* exactly two outcomes, a decoded value / normal reply ("ok") or a        *)
(* reported error ("err"); the process survives and a valid request        *)
(* afterwards is still served.                                             *)
(*                                                                         *)
(*   feed   h, gen, outcome        function level, one per (input, handler) *)
(*   probe  h, answered            a valid request after the feeds so far  *)
(*   svc    case, hostile, panics, alive, answered                         *)
(*          service level: a batch of hostile datagrams / upstream replies  *)
(*          against the real DNS service, then a valid query                *)
(*                                                                         *)
(* Completeness of the structured part: every case of the plan (the        *)
(* WireGrammar cases handed to the driver, IOEnv.PLAN) must have been fed. *)
(***************************************************************************)
EXTENDS Integers, Sequences, FiniteSets, TLC, Json, IOUtils
Rec == ndJsonDeserialize(IOEnv.TRACE)
Plan == ndJsonDeserialize(IOEnv.PLAN)
N == Len(Rec)
VARIABLES l, viol, stats
vars == <<l, viol, stats>>

Outcomes == {"ok", "err"}
C05Feed(e) == e.outcome \in Outcomes
C05Probe(e) == e.answered
C05Svc(e) == e.alive /\ e.panics = 0 /\ e.answered

Bump(s, k) == [s EXCEPT ![k] = @ + 1]
Init == l = 1 /\ viol = <<>>
        /\ stats = [feeds |-> 0, ok |-> 0, err |-> 0, probes |-> 0, svc |-> 0, hostile |-> 0, planned |-> Len(Plan)]
Next ==
    /\ l <= N
    /\ l' = l + 1
    /\ LET e == Rec[l] IN
       CASE e.ev = "feed" ->
              /\ stats' = Bump(Bump(stats, "feeds"), IF e.outcome = "ok" THEN "ok" ELSE "err")
              /\ viol' = IF C05Feed(e) THEN viol
                         ELSE Append(viol, <<"C05", l, e.h \o "." \o e.outcome>>)
         [] e.ev = "probe" ->
              /\ stats' = Bump(stats, "probes")
              /\ viol' = IF C05Probe(e) THEN viol
                         ELSE Append(viol, <<"C05", l, e.h \o ".validRequestNotServedAfterHostileInput">>)
         [] e.ev = "svc" ->
              /\ stats' = [Bump(stats, "svc") EXCEPT !.hostile = @ + e.hostile]
              /\ viol' = IF C05Svc(e) THEN viol
                         ELSE Append(viol, <<"C05", l, IF ~e.alive THEN "service.aborted" ELSE IF e.panics > 0 THEN "service.handlerPanicked" ELSE "service.validQueryNotAnswered">>)
         [] OTHER -> UNCHANGED <<viol, stats>>
Spec == Init /\ [][Next]_vars

\* every planned grammar case reached the handlers
Fed == {Rec[i].gen : i \in {j \in 1..N : Rec[j].ev = "feed"}}
Missing == {i \in 1..Len(Plan) : Plan[i] \notin Fed}
Report == (l = N + 1) => PrintT(<<"REPORT", ToJson([viol |-> viol, stats |-> stats, missing |-> Cardinality(Missing)])>>)
Done == TLCGet("stats").diameter = N + 1
=============================================================================
