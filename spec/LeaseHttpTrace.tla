---------------------------- MODULE LeaseHttpTrace ----------------------------
(***************************************************************************)
(* C20 at service level: what GET /api/v1/leases.json and the two gauges   *)
(* of GET /metrics say, against the lease table read through the harness's *)
(* own SQLite connection immediately before the request (and again after;  *)
(* `stable` says the two reads agree, otherwise the event is not judged).  *)
(*                                                                         *)
(*   listing  status, json_ok, has_leases_array, entries, rows, stable     *)
(*   gauges   active, expired, expiries, t0, t1, stable                    *)
(* entries / rows are [ip octets, client-id digest, client-id length,      *)
(* start, expiry] with times relative to the start of the rig.             *)
(***************************************************************************)
EXTENDS Integers, Sequences, FiniteSets, TLC, Json, IOUtils
Rec == ndJsonDeserialize(IOEnv.TRACE)
N == Len(Rec)
VARIABLES l, viol, stats
vars == <<l, viol, stats>>
SetOf(s) == {s[i] : i \in 1..Len(s)}
Count(s, P(_)) == Cardinality({i \in 1..Len(s) : P(s[i])})

\* the listing is a JSON document with exactly one entry per stored lease carrying its address, identifier, start and expiry
C20Listing(e) == /\ e.status = 200 /\ e.json_ok /\ e.has_leases_array
                 /\ Len(e.entries) = Len(e.rows)
                 /\ SetOf(e.entries) = SetOf(e.rows)
\* the gauges are the counts of unexpired / expired rows at some instant inside the request window
C20Gauges(e) == \E now \in e.t0..e.t1 :
                    /\ e.active = Count(e.expiries, LAMBDA x : x > now)
                    /\ e.expired = Count(e.expiries, LAMBDA x : x <= now)

ListingShape(e) == IF e.status # 200 THEN "listingNotServed"
                   ELSE IF ~e.json_ok THEN "listingNotValidJson"
                   ELSE IF ~e.has_leases_array THEN "listingWithoutLeasesArray"
                   ELSE IF Len(e.entries) # Len(e.rows) THEN "listingEntryCountDiffersFromStore"
                   ELSE "listingEntryDiffersFromStore"
Bump(s, k) == [s EXCEPT ![k] = @ + 1]
Init == l = 1 /\ viol = <<>> /\ stats = [listings |-> 0, gauges |-> 0, unstable |-> 0, nonempty |-> 0, withExpired |-> 0, empty |-> 0]
Next ==
    /\ l <= N
    /\ l' = l + 1
    /\ LET e == Rec[l] IN
       CASE e.ev = "listing" /\ e.stable ->
              /\ stats' = Bump(Bump(stats, "listings"), IF Len(e.rows) = 0 THEN "empty" ELSE "nonempty")
              /\ viol' = IF C20Listing(e) THEN viol ELSE Append(viol, <<"C20", l, ListingShape(e)>>)
         [] e.ev = "gauges" /\ e.stable ->
              /\ stats' = Bump(Bump(stats, "gauges"), IF \E i \in 1..Len(e.expiries) : e.expiries[i] <= e.t0 THEN "withExpired" ELSE "listings") 
              /\ viol' = IF C20Gauges(e) THEN viol ELSE Append(viol, <<"C20", l, "gaugesDifferFromStore">>)
         [] e.ev \in {"listing", "gauges"} -> stats' = Bump(stats, "unstable") /\ UNCHANGED viol
         [] OTHER -> UNCHANGED <<viol, stats>>
Spec == Init /\ [][Next]_vars
Report == (l = N + 1) => PrintT(<<"REPORT", ToJson([viol |-> viol, stats |-> stats])>>)
Done == TLCGet("stats").diameter = N + 1
=============================================================================
