SPECIFICATION Spec
CONSTANT Enforce = {"C01", "C09", "C10", "C13", "C18", "C20"}
INVARIANT Report
POSTCONDITION Consumed
CHECK_DEADLOCK FALSE
