------------------------------- MODULE RadvTrace -------------------------------
(***************************************************************************)
(* Trace validation for C17: one event per (configuration, environment):   *)
(* the YAML was loaded by the real loader, the advertisement built and     *)
(* serialised by the real code and decoded by the harness's RFC decoder.   *)
(* TLC derives what the advertisement must contain from the configuration  *)
(* (Radv.tla) and compares.                                                *)
(***************************************************************************)
EXTENDS Radv, TLC, Json, IOUtils
CONSTANT Enforce
Rec == ndJsonDeserialize(IOEnv.TRACE)
N == Len(Rec)
VARIABLES l, viol, stats
vars == <<l, viol, stats>>
SetOf(s) == {s[i] : i \in 1..Len(s)}
Has(r, f) == f \in DOMAIN r

Judge(e) ==
    LET cfg == e.cfg  i == cfg.if  top == cfg.top  env == cfg.env  ra == e.ra
        opts == ra.opts
        OptsOf(t) == {opts[k] : k \in {j \in 1..Len(opts) : opts[j].t = t}}
        \* ---- header
        life == IF Absent(i.lifetime) THEN env.deflife ELSE IF IsNull(i.lifetime) THEN <<0, 0>> ELSE i.lifetime.v
        okHdr == /\ ra.hop = (IF IsVal(i.hop) THEN i.hop.v ELSE 0)
                 /\ ra.managed = (IF IsVal(i.managed) THEN i.managed.v ELSE FALSE)
                 /\ ra.other = (IF IsVal(i.other) THEN i.other.v ELSE FALSE)
                 /\ ra.lifetime \in Field16(life)
                 /\ ra.reachable \in (IF IsVal(i.reachable) THEN FieldMs(i.reachable.v) ELSE {<<0, 0>>})
                 /\ ra.retransmit \in (IF IsVal(i.retransmit) THEN FieldMs(i.retransmit.v) ELSE {<<0, 0>>})
        \* ---- layout
        okLayout == /\ ra.ok /\ ra.size % 8 = 0 /\ ra.flags_resv_zero
                    /\ \A k \in 1..Len(opts) : /\ (Has(opts[k], "resv_zero") => opts[k].resv_zero)
                                               /\ (Has(opts[k], "hostbits_zero") => opts[k].hostbits_zero)
                                               /\ (Has(opts[k], "wellformed") => opts[k].wellformed)
                                               /\ (Has(opts[k], "pad_zero") => opts[k].pad_zero)
                                               /\ ~Has(opts[k], "unknown")
        \* ---- source link-layer address, MTU
        okLl == IF ~IsVal(env.ll) THEN OptsOf(1) = {} ELSE \E o \in OptsOf(1) : o.ll = env.ll.v /\ Cardinality(OptsOf(1)) = 1
        mtuWant == IF Absent(i.mtu) THEN (IF env.ifmtu = 0 THEN -1 ELSE env.ifmtu) ELSE IF IsNull(i.mtu) THEN -1 ELSE i.mtu.v
        okMtu == IF mtuWant = -1 THEN OptsOf(5) = {} ELSE \E o \in OptsOf(5) : o.mtu = <<mtuWant \div 65536, mtuWant % 65536>> /\ Cardinality(OptsOf(5)) = 1
        \* ---- prefixes
        WantPrefix(p, o) == /\ o.plen = p.len /\ o.prefix = MaskOctets(p.prefix, p.len)
                            /\ o.onlink = (IF IsVal(p.onlink) THEN p.onlink.v ELSE TRUE)
                            /\ o.autonomous = (IF IsVal(p.autonomous) THEN p.autonomous.v ELSE TRUE)
                            /\ o.valid \in Field32(IF IsVal(p.valid) THEN p.valid.v ELSE <<39, 36096>>)
                            /\ o.preferred \in Field32(IF IsVal(p.preferred) THEN p.preferred.v ELSE <<9, 14976>>)
        okPfx == /\ Cardinality({k \in 1..Len(opts) : opts[k].t = 3}) = Len(i.prefixes)
                 /\ \A k \in 1..Len(i.prefixes) : \E o \in OptsOf(3) : Has(o, "plen") /\ WantPrefix(i.prefixes[k], o)
        \* ---- recursive DNS servers
        dnsList == IF IsVal(i.dns) /\ IsNull(i.dns.addresses) THEN <<>>
                   ELSE IF IsVal(i.dns) /\ IsVal(i.dns.addresses) THEN Sub6(i.dns.addresses.v, env.self6)
                   ELSE IF IsVal(top.dns) THEN Sub6(OnlyV6(top.dns.v), env.self6) ELSE <<env.self6>>       \* built-in default [$self4, $self6]
        okDns == IF dnsList = <<>> THEN OptsOf(25) = {}
                 ELSE /\ Cardinality(OptsOf(25)) = 1
                      /\ \E o \in OptsOf(25) : /\ o.servers = dnsList /\ o.len8 = 1 + 2 * Len(dnsList)
                                               /\ ((IsVal(i.dns) /\ IsVal(i.dns.lifetime)) => o.lifetime \in Field32(i.dns.lifetime.v))
        \* ---- DNS search list (domains compared by the decoder's digest of the lower-cased name)
        dl == IF IsVal(i.search) /\ IsNull(i.search.domains) THEN <<>>
              ELSE IF IsVal(i.search) /\ IsVal(i.search.domains) THEN i.search.domains.d
              ELSE IF IsVal(top.search) THEN top.search.d ELSE <<>>
        okSearch == IF dl = <<>> THEN OptsOf(31) = {}
                    ELSE /\ Cardinality(OptsOf(31)) = 1
                         /\ \E o \in OptsOf(31) : /\ o.domains = dl
                                                  /\ ((IsVal(i.search) /\ IsVal(i.search.lifetime)) => o.lifetime \in Field32(i.search.lifetime.v))
        \* ---- NAT64 prefix
        okP64 == IF ~IsVal(i.pref64) THEN OptsOf(38) = {}
                 ELSE /\ Cardinality(OptsOf(38)) = 1
                      /\ \E o \in OptsOf(38) : /\ Has(o, "plc") /\ o.plc = Plc(i.pref64.len)
                                               /\ o.scaled \in Scaled(IF IsVal(i.pref64.lifetime) THEN i.pref64.lifetime.v ELSE <<0, 600>>)
                                               /\ o.prefix96 = SubSeq(MaskOctets(i.pref64.prefix, i.pref64.len), 1, 12)
        \* ---- captive portal
        url == IF Absent(i.portal) THEN (IF IsVal(top.portal) THEN top.portal.d ELSE -1) ELSE IF IsNull(i.portal) THEN -1 ELSE i.portal.d
        okPortal == IF url = -1 THEN OptsOf(37) = {} ELSE Cardinality(OptsOf(37)) = 1 /\ \E o \in OptsOf(37) : o.url = url
        \* the 8-bit option length counts units of 8 octets: 2038 URL octets, 127 servers, 2032 octets of encoded domains fit
        urlLen == IF Absent(i.portal) THEN (IF IsVal(top.portal) THEN top.portal.n ELSE 0) ELSE IF IsNull(i.portal) THEN 0 ELSE i.portal.n
        searchLen == IF IsVal(i.search) /\ IsNull(i.search.domains) THEN 0
                     ELSE IF IsVal(i.search) /\ IsVal(i.search.domains) THEN i.search.domains.n
                     ELSE IF IsVal(top.search) THEN top.search.n ELSE 0
        tooLong == urlLen > 2038 \/ Len(dnsList) > 127 \/ searchLen > 2032
        built == e.load = "ok" /\ e.outcome = "ok"
        ok == IF e.load = "rejected" THEN OverWide(cfg) \/ tooLong
              ELSE built /\ okLayout /\ okHdr /\ okLl /\ okMtu /\ okPfx /\ okDns /\ okSearch /\ okP64 /\ okPortal
        shape == IF e.load = "panic" THEN "loaderPanics"
                 ELSE IF e.load = "rejected" THEN "representableConfigurationRejected"
                 ELSE IF e.outcome = "panic" THEN (IF IsVal(i.pref64) /\ i.pref64.len < 32 THEN "builderPanicsOnPref64Shorter32" ELSE "builderPanics")
                 ELSE IF e.outcome # "ok" THEN "noAdvertisementBuilt"
                 ELSE IF ~ra.ok THEN "advertisementDoesNotDecode"
                 ELSE IF ~okP64 THEN (IF \E o \in OptsOf(38) : Has(o, "plc") /\ o.plc # Plc(i.pref64.len) THEN "pref64PrefixLengthCodeWrong" ELSE "pref64LifetimeOrPrefixWrong")
                 ELSE IF ~okHdr THEN (IF ra.lifetime \notin Field16(life) \/ ra.reachable \notin (IF IsVal(i.reachable) THEN FieldMs(i.reachable.v) ELSE {<<0, 0>>})
                                          \/ ra.retransmit \notin (IF IsVal(i.retransmit) THEN FieldMs(i.retransmit.v) ELSE {<<0, 0>>})
                                      THEN "headerTimeWrapped" ELSE "headerFieldWrong")
                 ELSE IF ~okPfx THEN (IF \E k \in 1..Len(opts) : Has(opts[k], "hostbits_zero") /\ ~opts[k].hostbits_zero THEN "prefixHostBitsNotCleared"
                                      ELSE "prefixOptionWrongOrLifetimeWrapped")
                 ELSE IF ~okLayout THEN (IF \E k \in 1..Len(opts) : Has(opts[k], "hostbits_zero") /\ ~opts[k].hostbits_zero THEN "prefixHostBitsNotCleared"
                                         ELSE IF \E o \in OptsOf(25) \cup OptsOf(31) : ~o.wellformed THEN "emptyOrMalformedDnsOption" ELSE "layoutOrReservedFieldWrong")
                 ELSE IF ~okDns THEN (IF dnsList = <<>> THEN "emptyOrMalformedDnsOption"
                                      ELSE IF \E o \in OptsOf(25) : \E k \in 1..Len(o.servers) : o.servers[k] = [x \in 1..16 |-> 0] THEN "self6NotSubstitutedInInterfaceDnsServers"
                                      ELSE "dnsServersWrong")
                 ELSE IF ~okSearch THEN (IF dl = <<>> THEN "emptyOrMalformedDnsOption" ELSE "dnsSearchListWrong")
                 ELSE IF ~okMtu THEN "mtuOptionWrong" ELSE IF ~okPortal THEN "captivePortalWrong" ELSE "sourceLinkLayerAddressWrong"
    IN IF ok THEN {} ELSE {<<"C17", l, shape>>}

Init == l = 1 /\ viol = {} /\ stats = [n |-> 0, built |-> 0, rejected |-> 0, overwide |-> 0, nulls |-> 0, p64 |-> 0]
Step == /\ l <= N /\ l' = l + 1
        /\ LET e == Rec[l] IN
           IF e.ev = "ra"
           THEN /\ viol' = viol \cup Judge(e)
                /\ stats' = [stats EXCEPT !.n = @ + 1, !.built = @ + (IF e.outcome = "ok" THEN 1 ELSE 0), !.rejected = @ + (IF e.load = "rejected" THEN 1 ELSE 0),
                                          !.overwide = @ + (IF OverWide(e.cfg) THEN 1 ELSE 0),
                                          !.nulls = @ + (IF IsNull(e.cfg.if.mtu) \/ IsNull(e.cfg.if.portal) \/ IsNull(e.cfg.if.lifetime) THEN 1 ELSE 0),
                                          !.p64 = @ + (IF IsVal(e.cfg.if.pref64) THEN 1 ELSE 0)]
           ELSE UNCHANGED <<viol, stats>>
Spec == Init /\ [][Step]_vars
Report == l = N + 1 => PrintT(<<"REPORT", ToJson([viol |-> {v \in viol : v[1] \in Enforce}, drift |-> {}, lines |-> N, stats |-> stats])>>)
Consumed == TLCGet("stats").diameter = N + 1
=============================================================================
