SPECIFICATION FairSpec
CONSTANTS
  Queries = {1, 2}
  Ids = {1, 2}
  MaxTx = 2
  Faults = 2
  TcpClients = {2}
  AllowCollision = FALSE
  Remap = TRUE
PROPERTY Answered
CHECK_DEADLOCK FALSE
