SPECIFICATION Spec
INVARIANTS HostBitsIrrelevant Nested MappedAlike NoMatchNoAccess FirstWins
CHECK_DEADLOCK FALSE
