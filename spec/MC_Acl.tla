-------------------------------- MODULE MC_Acl --------------------------------
(***************************************************************************)
(* Exhaustive check of the ACL model over an alphabet of overlapping       *)
(* prefixes, clients of every family and all rule lists of length <= 2:    *)
(*  - host bits of a written prefix do not change what it contains         *)
(*  - a longer prefix of the same network contains a subset                *)
(*  - an IPv4 client and its mapped IPv6 form are treated alike            *)
(*  - first match wins: the decision depends only on the first matching    *)
(*    rule; rules after it are irrelevant; no match => nothing granted     *)
(* and enumeration of the cases for the harness.                           *)
(***************************************************************************)
EXTENDS Acl, TLC, Json
VARIABLES rules, client
vars == <<rules, client>>
V4(a, b, c, d) == <<a, b, c, d>>
V6lo(x, y) == <<32, 1, 13, 184, 0, 0, 0, 0, 0, 0, 0, 0, 0, 0, x, y>>
Prefixes == {<<"v4", V4(192, 0, 2, 0), 24>>, <<"v4", V4(192, 0, 2, 53), 24>>, <<"v4", V4(192, 0, 2, 128), 25>>,
             <<"v4", V4(192, 0, 2, 7), 32>>, <<"v4", V4(0, 0, 0, 0), 0>>, <<"v4", V4(192, 0, 3, 0), 23>>,
             <<"v6", V6lo(0, 0), 64>>, <<"v6", V6lo(0, 7), 128>>, <<"v6", Mapped(V4(192, 0, 2, 0)), 120>>,
             <<"v6", Mapped(V4(192, 0, 2, 9)), 121>>, <<"v6", [i \in 1..16 |-> 0], 0>>}
Clients == {[fam |-> "v4", a |-> V4(192, 0, 2, 7)], [fam |-> "v4", a |-> V4(192, 0, 2, 200)], [fam |-> "v4", a |-> V4(192, 0, 3, 1)],
            [fam |-> "v4", a |-> V4(10, 0, 0, 1)], [fam |-> "v6", a |-> V6lo(0, 7)], [fam |-> "v6", a |-> V6lo(1, 0)],
            [fam |-> "v6", a |-> Mapped(V4(192, 0, 2, 7))], [fam |-> "v6", a |-> Mapped(V4(10, 0, 0, 1))],
            [fam |-> "unix", a |-> <<>>]}
PermSets == {{}, {"dns-recursion"}, {"http", "http-metrics"}, Ops}
SubnetLists == {<<p>> : p \in Prefixes} \cup {<<<<"v4", V4(192, 0, 2, 0), 24>>, <<"v6", V6lo(0, 0), 64>>>>, <<>>}
RuleSet == [any : {FALSE}, subnets : SubnetLists, unix : {-1, 0, 1}, perms : PermSets] \cup [any : {TRUE}, subnets : {<<>>}, unix : {-1, 0, 1}, perms : PermSets]
Init == client \in Clients /\ rules \in {<<>>} \cup {<<r>> : r \in RuleSet}
Next == UNCHANGED vars
Spec == Init /\ [][Next]_vars

Masked(p) == LET n == Len(p[2]) * 8 IN
             <<p[1], [i \in 1..Len(p[2]) |-> LET keep == IF p[3] >= 8 * i THEN 8 ELSE IF p[3] <= 8 * (i - 1) THEN 0 ELSE p[3] - 8 * (i - 1)
                                              IN (p[2][i] \div P2(8 - keep)) * P2(8 - keep)], p[3]>>
HostBitsIrrelevant == \A p \in Prefixes : InPrefix(p, client) <=> InPrefix(Masked(p), client)
Nested == \A p \in Prefixes : p[3] > 0 => (InPrefix(p, client) => InPrefix(<<p[1], p[2], p[3] - 1>>, client))
MappedAlike == client.fam = "v4" => \A p \in Prefixes : InPrefix(p, client) <=> InPrefix(p, [fam |-> "v6", a |-> Mapped(client.a)])
NoMatchNoAccess == First(rules, client) = 0 => \A op \in Ops : ~Granted(rules, client, op)
\* appending any rule after a matching one changes nothing
FirstWins == \A r \in {x \in RuleSet : x.any /\ x.unix = -1} :
               First(rules, client) # 0 => \A op \in Ops : Granted(rules \o <<r>>, client, op) <=> Granted(rules, client, op)
=============================================================================
