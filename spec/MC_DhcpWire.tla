---------------------------- MODULE MC_DhcpWire ----------------------------
(***************************************************************************)
(* (1) Model checking of the reference chunking: an encoder that emits     *)
(*     ChunkLens(n) for every option satisfies StreamCarries, for every    *)
(*     option multiset over the boundary lengths; an encoder that writes   *)
(*     `len mod 256` in one chunk (the defect repaired in dhcppkt.rs) does *)
(*     not.  (2) Enumeration of the cases the harness replays.             *)
(***************************************************************************)
EXTENDS DhcpWire, TLC, Json
CONSTANTS Lens, Codes, MaxOpts
VARIABLES opts, phase
vars == <<opts, phase>>

RefChunks(o) == \* concatenation over options of <<code, chunk len>>
    LET RECURSIVE Cat(_)
        Cat(i) == IF i > Len(o) THEN <<>>
                  ELSE [j \in 1..NChunks(o[i][2]) |-> <<o[i][1], ChunkLens(o[i][2])[j]>>] \o Cat(i + 1)
    IN Cat(1)
NaiveChunks(o) == [i \in 1..Len(o) |-> <<o[i][1], o[i][2] % 256>>]

Init == opts = <<>> /\ phase = "build"
Add == /\ phase = "build" /\ Len(opts) < MaxOpts
       /\ \E c \in Codes, n \in Lens :
            /\ \A i \in 1..Len(opts) : opts[i][1] < c        \* codes distinct, canonical order
            /\ opts' = Append(opts, <<c, n, 0>>)
       /\ UNCHANGED phase
Done == phase = "build" /\ phase' = "done" /\ UNCHANGED opts
Next == Add \/ Done
Spec == Init /\ [][Next]_vars

RefOK == StreamCarries(RefChunks(opts), opts)
NaiveOK == StreamCarries(NaiveChunks(opts), opts)      \* expected to be violated
Emit == phase = "done" => PrintT(<<"CASE", ToJson([opts |-> [i \in 1..Len(opts) |-> <<opts[i][1], opts[i][2]>>]])>>)
=============================================================================
