---------------------------- MODULE MC_DnsRateLimit ----------------------------
(***************************************************************************)
(* Model checking of the bucket with scaled constants: H handlers each     *)
(* doing Check then Deplete as separate steps, a clock, and a ghost log of *)
(* grants.  With one handler (or an atomic check+deplete) Bound holds for  *)
(* burst = B exactly, and Quiet holds iff                                  *)
(* the minimum charge fits the capacity (MinCost <= B) -- the defect       *)
(* repaired in bucket.rs had MinCost = 200 > B = 100.  With two handlers   *)
(* the check/deplete race lets the burst grow with the number of handlers  *)
(* (BoundStrict is refuted; BoundRace, burst = H * B, holds).              *)
(***************************************************************************)
EXTENDS DnsRateLimit, TLC
CONSTANTS B, R, Costs, H, MaxT
VARIABLES z, now, pc, grants, idle
vars == <<z, now, pc, grants, idle>>
Handlers == 1..H
MinCost == CHOOSE c \in Costs : \A d \in Costs : c <= d
MaxCost == CHOOSE c \in Costs : \A d \in Costs : c >= d

Init == z = 0 /\ now = B \div R /\ pc = [h \in Handlers |-> <<"idle", 0>>] /\ grants = <<>> /\ idle = 0
Check(h, c) == /\ pc[h][1] = "idle"
               /\ pc' = [pc EXCEPT ![h] = IF CheckOK(z, now, c, B, R) THEN <<"granted", c>> ELSE <<"idle", 0>>]
               /\ idle' = 0
               /\ UNCHANGED <<z, now, grants>>
Deplete(h) == /\ pc[h][1] = "granted"
              /\ z' = Depleted(z, now, pc[h][2], B, R)
              /\ grants' = Append(grants, <<now, pc[h][2]>>)
              /\ pc' = [pc EXCEPT ![h] = <<"idle", 0>>]
              /\ idle' = 0
              /\ UNCHANGED now
Tick == now < MaxT /\ now' = now + 1 /\ idle' = idle + 1 /\ UNCHANGED <<z, pc, grants>>
Next == (\E h \in Handlers, c \in Costs : Check(h, c)) \/ (\E h \in Handlers : Deplete(h)) \/ Tick
Spec == Init /\ [][Next]_vars

BoundStrict == Bound(grants, B, R)
BoundRace == Bound(grants, H * B, R)
\* after an idle period of at least the refill time a minimal REFUSED is granted
Quiet == (idle >= B \div R /\ \A h \in Handlers : pc[h][1] = "idle") => CheckOK(z, now, MinCost, B, R)
StateBound == Len(grants) <= 6
=============================================================================
