------------------------------- MODULE DnsCache -------------------------------
(***************************************************************************)
(* The DNS cache of erbium (crates/erbium-core/src/dns/cache/mod.rs).      *)
(* Shared definitions for MC_DnsCache (exhaustive) and DnsCacheTrace       *)
(* (validation of traces recorded under tokio's paused clock).             *)
(*                                                                         *)
(* A key is <<name, type, do, cd>> (name already case-folded by the        *)
(* harness's own projection for the comparison "same DNS name").           *)
(* An entry: ttls = sequence of the TTLs of every record of the cached     *)
(* reply (answer ++ authority ++ additional), age = milliseconds since it  *)
(* was obtained.  A TTL is a pair <<hi, lo>> of 16-bit halves (TLC         *)
(* integers are 32-bit signed; TTLs go up to 2^32-1).                      *)
(***************************************************************************)
EXTENDS Integers, Sequences, FiniteSets

TLe(a, b) == a[1] < b[1] \/ (a[1] = b[1] /\ a[2] <= b[2])
TMin(a, b) == IF TLe(a, b) THEN a ELSE b
RECURSIVE MinTtl(_)
MinTtl(s) == IF Len(s) = 1 THEN s[1] ELSE TMin(s[1], MinTtl(Tail(s)))
\* a - n for 0 <= n < 65536; <<-1, 0>> if it would go below zero
TSub(a, n) == IF a[2] >= n THEN <<a[1], a[2] - n>>
              ELSE IF a[1] > 0 THEN <<a[1] - 1, a[2] + 65536 - n>> ELSE <<-1, 0>>
\* n seconds <= ttl ?
SecsLe(n, t) == t[1] > 0 \/ t[2] >= n

WholeSecs(ms) == ms \div 1000
CeilSecs(ms) == (ms + 999) \div 1000

\* may an entry of this age still be served?   (d <= minTTL)
Servable(ttls, age) == ttls # <<>> /\ SecsLe(CeilSecs(age), MinTtl(ttls))
\* what a hit must carry
Aged(ttls, age) == [i \in 1..Len(ttls) |-> TSub(ttls[i], WholeSecs(age))]

(* C06 for one lookup.  ins = set of [k, ttls, age] the cache was given     *)
(* (latest per exact key); k = the key asked; hit/served = what came back. *)
C06Lookup(ins, k, hit, served) ==
    hit => \E e \in ins : /\ e.k = k
                          /\ Servable(e.ttls, e.age)
                          /\ served = Aged(e.ttls, e.age)
                          /\ \A i \in 1..Len(served) : served[i][1] >= 0
C06Shape(ins, k, hit, served) ==
    IF ~\E e \in ins : e.k = k THEN "hitForADifferentKey"
    ELSE IF ~\E e \in ins : e.k = k /\ Servable(e.ttls, e.age) THEN "servedPastTtl"
    ELSE IF \E i \in 1..Len(served) : served[i][1] < 0 \/ served[i][1] > 65535 THEN "ttlWrapped"
    ELSE "ttlNotOriginalMinusElapsed"
\* "once that time has passed the next identical query is resolved upstream again"
C06Expired(ins, k, hit) == (\A e \in ins : e.k = k => ~Servable(e.ttls, e.age)) => ~hit

(* What erbium does today: lifetime = min TTL over all three sections (0 => *)
(* not stored); hit iff age <= lifetime; TTLs minus whole seconds elapsed. *)
ImplStores(ttls) == ttls # <<>> /\ MinTtl(ttls) # <<0, 0>>
ImplHit(ttls, age) == ImplStores(ttls) /\ SecsLe(CeilSecs(age), MinTtl(ttls))
=============================================================================
