---------------------------- MODULE CacheE2ETrace ----------------------------
(***************************************************************************)
(* C06 at service level: the real DnsService (listener -> ACL -> cache ->  *)
(* router -> upstream) in the rig, real time, short TTLs.  Events are the   *)
(* rig's (see ForwardTrace): csend / crecv at the client, urecv / usend at  *)
(* the scripted upstream, each with `t` in ms on one clock and one global   *)
(* sequence.  Judged at every client reply:                                 *)
(*   asked  == the upstream saw the question between this query's csend     *)
(*             and its crecv  (then the reply is not from the cache)        *)
(*   otherwise the reply is from the cache and must stem from an upstream   *)
(*   reply obtained for a query with the SAME key (name, type, DO, CD); its *)
(*   age lies in [ageLo, ageHi] (bounds from the event times around the     *)
(*   insertion and the lookup), and                                         *)
(*     - ageLo < minTTL * 1000                 (not served past its TTL)    *)
(*     - floor(ageLo/1000) <= orig - served <= floor(ageHi/1000) per record *)
(***************************************************************************)
EXTENDS Integers, Sequences, FiniteSets, TLC, Json, IOUtils
Rec == ndJsonDeserialize(IOEnv.TRACE)
N == Len(Rec)
VARIABLES l, cstart, viol, stats
vars == <<l, cstart, viol, stats>>

\* TTLs are <<hi16, lo16>> (32-bit integers in TLC): compare as pairs, subtract only nearby values
PLe(a, b) == a[1] < b[1] \/ (a[1] = b[1] /\ a[2] <= b[2])
Ttl(r) == <<r[4], r[5]>>
AllRecs(u) == u.an \o u.ns \o u.ar
Min(S) == CHOOSE x \in S : \A y \in S : x <= y
Max(S) == CHOOSE x \in S : \A y \in S : x >= y
MinTtl(u) == IF AllRecs(u) = <<>> THEN <<0, 0>>
             ELSE LET S == {Ttl(AllRecs(u)[i]) : i \in 1..Len(AllRecs(u))} IN CHOOSE x \in S : \A y \in S : PLe(x, y)
Key(c) == <<c.tok, c.do, c.cd>>

Judge(e) ==
    LET range == cstart..(l - 1)
        csI == {j \in range : Rec[j].ev = "csend" /\ Rec[j].q = e.q}
    IN IF csI = {} \/ ~e.parse_ok THEN [bad |-> FALSE, shape |-> "", cached |-> FALSE]
       ELSE
       LET cs == Max(csI)
           c == Rec[cs]
           asked == \E j \in cs..(l - 1) : Rec[j].ev = "urecv" /\ Rec[j].tok = c.tok
           \* earlier queries with the same key, and the upstream replies that arrived while they were outstanding
           sameKeyQ == {j \in cstart..(cs - 1) : Rec[j].ev = "csend" /\ Key(Rec[j]) = Key(c)}
           CrOf(j) == {k \in j..(l - 1) : Rec[k].ev = "crecv" /\ Rec[k].q = Rec[j].q}
           fills == {u \in cstart..(cs - 1) : /\ Rec[u].ev = "usend" /\ Rec[u].tok = c.tok /\ Rec[u].kind \in {"ok", "dup", "late"}
                                              /\ \E j \in sameKeyQ : j < u /\ (CrOf(j) = {} \/ u < Min(CrOf(j)) + 1)}
       IN IF asked THEN [bad |-> FALSE, shape |-> "", cached |-> FALSE]
          ELSE IF fills = {} THEN [bad |-> TRUE, shape |-> "cacheHitForADifferentKey", cached |-> TRUE]
          ELSE
          \* which same-key reply the entry stems from cannot be told when several were obtained (a name asked in another
          \* case goes upstream again and may or may not replace the entry): some candidate must explain the reply
          LET Eval(u) ==
                LET up == Rec[u]
                    \* the query that was outstanding when that upstream reply arrived, and when its client had the answer
                    owner == Max({j \in sameKeyQ : j < u})
                    rFirst == IF CrOf(owner) = {} THEN up.t ELSE Rec[Min(CrOf(owner))].t
                    \* event times are truncated to whole milliseconds: widen both bounds by 2 ms
                    ageLo == IF c.t > rFirst + 2 THEN c.t - rFirst - 2 ELSE 0
                    ageHi == e.t - up.t + 2
                    m == MinTtl(up)
                    secs == <<<<e.an, up.an>>, <<e.ns, up.ns>>, <<e.ar, up.ar>>>>
                    comparable == \A s \in 1..3 : Len(secs[s][1]) = Len(secs[s][2])
                    Dec(s, i) == LET o == Ttl(secs[s][2][i])  v == Ttl(secs[s][1][i])  dh == o[1] - v[1]
                                 IN IF dh > 1 THEN 100000 ELSE IF dh < -1 THEN -100000 ELSE dh * 65536 + o[2] - v[2]
                    grew == comparable /\ \E s \in 1..3 : \E i \in 1..Len(secs[s][1]) : Dec(s, i) < 0
                    wrongDec == comparable /\ \E s \in 1..3 : \E i \in 1..Len(secs[s][1]) : Dec(s, i) < ageLo \div 1000 \/ Dec(s, i) > ageHi \div 1000
                    past == m[1] = 0 /\ ageLo >= m[2] * 1000
                IN [bad |-> past \/ grew \/ wrongDec,
                    shape |-> IF past THEN "servedPastTtl" ELSE IF grew THEN "ttlGrewOrWrapped" ELSE "ttlNotOriginalMinusElapsed"]
              latest == Eval(Max(fills))
          IN [bad |-> \A u \in fills : Eval(u).bad, shape |-> latest.shape, cached |-> TRUE]

Init == l = 1 /\ cstart = 1 /\ viol = {} /\ stats = [replies |-> 0, cached |-> 0, upstream |-> 0]
Step == /\ l <= N /\ l' = l + 1
        /\ LET e == Rec[l] IN
           CASE e.ev = "case" -> cstart' = l /\ UNCHANGED <<viol, stats>>
             [] e.ev = "crecv" ->
                  LET j == Judge(e) IN
                  /\ viol' = IF j.bad THEN viol \cup {<<"C06", l, j.shape>>} ELSE viol
                  /\ stats' = [stats EXCEPT !.replies = @ + 1, !.cached = @ + (IF j.cached THEN 1 ELSE 0), !.upstream = @ + (IF j.cached THEN 0 ELSE 1)]
                  /\ UNCHANGED cstart
             [] OTHER -> UNCHANGED <<cstart, viol, stats>>
Spec == Init /\ [][Step]_vars
Report == l = N + 1 => PrintT(<<"REPORT", ToJson([viol |-> viol, stats |-> stats])>>)
Consumed == TLCGet("stats").diameter = N + 1
=============================================================================
