------------------------------ MODULE DhcpWire ------------------------------
(***************************************************************************)
(* DHCP on the wire (crates/erbium-core/src/dhcp/dhcppkt.rs,               *)
(* crates/erbium-net/src/packet.rs):                                       *)
(*  (a) the option stream is a sequence of chunks (code, len <= 255)       *)
(*      closed by END(255); the value of an option is the concatenation of *)
(*      its chunks in order (RFC 3396), so a value of n octets needs       *)
(*      ceil(n/255) chunks (one empty chunk for n = 0);                    *)
(*  (b) the Ethernet/IPv4/UDP frame around a reply: lengths and the two    *)
(*      one's-complement checksums;                                        *)
(*  (c) the broadcast bit is the most significant bit of `flags`.          *)
(* Values are abstract here: an option is [code, len] (+ a digest computed *)
(* by the harness on real traces).                                         *)
(***************************************************************************)
EXTENDS Integers, Sequences, FiniteSets

FixedHeader == 240          \* 236 octets BOOTP + 4 octets magic cookie

\* ---- (a) reference chunking ------------------------------------------------
NChunks(n) == IF n = 0 THEN 1 ELSE (n + 254) \div 255
ChunkLens(n) == [i \in 1..NChunks(n) |-> IF i < NChunks(n) THEN 255 ELSE n - 255 * (NChunks(n) - 1)]
RECURSIVE SumSeq(_)
SumSeq(s) == IF s = <<>> THEN 0 ELSE Head(s) + SumSeq(Tail(s))

\* chunks: sequence of <<code, len>> as an independent TLV walk of the bytes found them
ChunkSum(chunks, code) == SumSeq([i \in 1..Len(chunks) |-> IF chunks[i][1] = code THEN chunks[i][2] ELSE 0])
ChunkCount(chunks, code) == Cardinality({i \in 1..Len(chunks) : chunks[i][1] = code})

\* opts: sequence of <<code, len, digest>> (the message's options, codes distinct)
StreamCarries(chunks, opts) ==
    /\ \A i \in 1..Len(chunks) : chunks[i][1] \in 1..254 /\ chunks[i][2] \in 0..255
    /\ \A i \in 1..Len(opts) : /\ ChunkSum(chunks, opts[i][1]) = opts[i][2]
                               /\ ChunkCount(chunks, opts[i][1]) >= NChunks(opts[i][2])
    /\ \A i \in 1..Len(chunks) : \E j \in 1..Len(opts) : opts[j][1] = chunks[i][1]
StreamLen(chunks, pads) == SumSeq([i \in 1..Len(chunks) |-> 2 + chunks[i][2]]) + pads + 1

\* ---- (b) frame ---------------------------------------------------------------
RECURSIVE Fold16(_)
Fold16(x) == IF x > 65535 THEN Fold16((x \div 65536) + (x % 65536)) ELSE x
\* words: sequence of 16-bit words INCLUDING the checksum field
Verifies(sum) == Fold16(sum) = 65535
IpHeaderSum(w) == SumSeq(w)
\* UDP: pseudo header (src, dst as two words each, protocol 17, udp length) + header + payload sum
UdpSum(srcw, dstw, udplen, hdrw, paysum) == SumSeq(srcw) + SumSeq(dstw) + 17 + udplen + SumSeq(hdrw) + paysum

\* ---- (c) broadcast bit ------------------------------------------------------
Broadcast(flags) == (flags \div 32768) % 2 = 1
=============================================================================
