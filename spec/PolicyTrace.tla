----------------------------- MODULE PolicyTrace -----------------------------
(***************************************************************************)
(* Trace validation for C02 (addresses) and C11 (options): every recorded  *)
(* case carries its configuration; TLC evaluates the DhcpPolicy model on   *)
(* it and compares with what the real loader + handle_pkt did.             *)
(***************************************************************************)
EXTENDS DhcpPolicy, TLC, Json, IOUtils
CONSTANT Enforce
Rec == ndJsonDeserialize(IOEnv.TRACE)
N == Len(Rec)
VARIABLES l, viol, stats
vars == <<l, viol, stats>>
SetOf(s) == {s[i] : i \in 1..Len(s)}
R(q) == [ip |-> q.ip, mac |-> q.mac, host |-> q.host, pl |-> SetOf(q.pl), mtu |-> q.mtu, rtr |-> q.rtr]

\* the last host address (broadcast - 1) of a subnet the configuration grants by prefix
RECURSIVE SubnetItems(_)
SubnetItems(p) == {<<p.a[i][2], p.a[i][3]>> : i \in {j \in 1..Len(p.a) : p.a[j][1] = "subnet"}}
                  \cup UNION {SubnetItems(p.k[i]) : i \in 1..Len(p.k)}
LastHosts(cfg) == {LastOf(s[1], s[2]) - 1 : s \in UNION {SubnetItems(cfg.pol[i]) : i \in 1..Len(cfg.pol)}
                                                   \cup {<<cfg.addresses[i][1], cfg.addresses[i][2]>> : i \in 1..Len(cfg.addresses)}}

AllocSet(e) ==
    LET r == R(e.req)
        exp == Allowed(e.cfg, r)
        got == SetOf(e.got)
        missing == exp \ got
        extra == got \ exp
        conclusive == e.stop # "limit"
        ok == e.stop \in {"noaddr", "nopool"} /\ missing = {} /\ extra = {}
        shape == IF e.stop \in {"err", "panic"} THEN "handlerFailedWhileServing"
                 ELSE IF extra # {} THEN (IF extra = {r.ip} THEN (IF IsDefault(Winner(e.cfg, r)) THEN "serverOwnAddressLeasedFromDefaultPool"
                                                                    ELSE "serverOwnAddressLeasedFromPolicyPool")
                                          ELSE "addressOutsideGrantedSetLeased")
                 ELSE IF missing \subseteq LastHosts(e.cfg) THEN "lastHostAddressOfSubnetNeverLeased"
                 ELSE "grantedAddressNeverLeased"
    IN /\ viol' = IF conclusive /\ ~ok THEN viol \cup {<<"C02", l, shape>>} ELSE viol
       /\ stats' = [stats EXCEPT !.drains = @ + 1, !.drained = @ + Cardinality(got),
                                 !.inconclusive = @ + (IF conclusive THEN 0 ELSE 1),
                                 !.empty = @ + (IF exp = {} THEN 1 ELSE 0),
                                 !.single = @ + (IF Cardinality(exp) = 1 THEN 1 ELSE 0),
                                 !.reserved = @ + (IF \E i \in 1..Len(e.cfg.pol) : e.cfg.pol[i].k # <<>> THEN 1 ELSE 0)]

\* big default pools: arithmetic on the prefix instead of draining
AllocProbe(e) ==
    LET r == R(e.req)  cfg == e.cfg
        InUsedConf(x) == \E i \in 1..Len(cfg.pol) : InUsed(cfg.pol[i], x)
        MemberD(pfx, x) == IsHost(x, pfx[1], pfx[2]) /\ x # r.ip /\ ~InUsedConf(x)
        Small == UNION {Mentioned(cfg.pol[i]) : i \in 1..Len(cfg.pol)} \cup {r.ip}
        Size(pfx) == Pow2(32 - pfx[2]) - 2 - Cardinality({x \in Small : IsHost(x, pfx[1], pfx[2]) /\ ~MemberD(pfx, x)})
        okSet(i) == LET s == e.sets[i]  pfx == cfg.addresses[i] IN
                    /\ s.size = Size(pfx)
                    /\ \A j \in 1..Len(s.members) : s.members[j][2] = MemberD(pfx, s.members[j][1])
        okAll == e.outcome = "ok" /\ Len(e.sets) = Len(cfg.addresses) /\ \A i \in 1..Len(e.sets) : okSet(i)
        onlyLast == e.outcome = "ok" /\ Len(e.sets) = Len(cfg.addresses) /\ \A i \in 1..Len(e.sets) :
                      LET s == e.sets[i]  pfx == cfg.addresses[i] IN
                      \A j \in 1..Len(s.members) : (s.members[j][2] # MemberD(pfx, s.members[j][1]))
                                                     => s.members[j][1] = LastOf(pfx[1], pfx[2]) - 1
        shape == IF e.outcome # "ok" THEN "defaultPoolComputationPanics"
                 ELSE IF onlyLast THEN "lastHostAddressOfSubnetNeverLeased" ELSE "defaultPoolDiffersFromDocumentedSet"
    IN /\ viol' = IF okAll THEN viol ELSE viol \cup {<<"C02", l, shape>>}
       /\ stats' = [stats EXCEPT !.probes = @ + 1]

Opts(e) ==
    LET r == R(e.req)
        exp == ModelOpts(e.cfg, r)
        got == {<<e.opts[i][1], e.opts[i][2]>> : i \in {j \in 1..Len(e.opts) : e.opts[j][1] \notin {51, 53, 54}}}
        \* the manual is silent on whether an empty default search list is sent as an empty option
        amb == {<<SEARCH, <<"empty">>>>}
        ok == e.outcome = "ok" => (got \ amb) = (exp \ amb)
        shape == IF \E x \in got \ exp : x[1] \notin r.pl THEN "optionSentThoughNotRequested"
                 ELSE IF \E x \in exp \ got : ~\E y \in got : y[1] = x[1] THEN "expectedOptionMissing"
                 ELSE IF \E x \in got \ exp : ~\E y \in exp : y[1] = x[1] THEN "unexpectedOptionSent"
                 ELSE "optionValueDiffersFromManual"
    IN /\ viol' = IF ok THEN viol ELSE viol \cup {<<"C11", l, shape>>}
       /\ stats' = [stats EXCEPT !.opts = @ + 1, !.optsReplied = @ + (IF e.outcome = "ok" THEN 1 ELSE 0),
                                 !.optsNonEmpty = @ + (IF exp # {} THEN 1 ELSE 0)]

Init == l = 1 /\ viol = {} /\ stats = [drains |-> 0, drained |-> 0, inconclusive |-> 0, empty |-> 0, single |-> 0, reserved |-> 0,
                                        probes |-> 0, opts |-> 0, optsReplied |-> 0, optsNonEmpty |-> 0, rejected |-> 0]
Step == /\ l <= N /\ l' = l + 1
        /\ LET e == Rec[l] IN
           CASE e.ev = "alloc_set" -> AllocSet(e)
             [] e.ev = "alloc_probe" -> AllocProbe(e)
             [] e.ev = "opts" -> Opts(e)
             [] e.ev = "cfg_rejected" -> viol' = viol \cup {<<"HARNESS", l, "generatedConfigRejected">>} /\ stats' = [stats EXCEPT !.rejected = @ + 1]
             [] OTHER -> UNCHANGED <<viol, stats>>
Spec == Init /\ [][Step]_vars
Report == l = N + 1 => PrintT(<<"REPORT", ToJson([viol |-> {v \in viol : v[1] \in Enforce \cup {"HARNESS"}}, drift |-> {}, lines |-> N, stats |-> stats])>>)
Consumed == TLCGet("stats").diameter = N + 1
=============================================================================
