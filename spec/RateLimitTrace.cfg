SPECIFICATION Spec
CONSTANTS
  Enforce = {"C16"}
  EnvBurst = 65536
  EnvRate = 4096
  QuietIdle = 3600
  QuietCost = 200
  ImplB = 100
  ImplR = 2
INVARIANT Report
POSTCONDITION Consumed
CHECK_DEADLOCK FALSE
