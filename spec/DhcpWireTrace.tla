--------------------------- MODULE DhcpWireTrace ---------------------------
(***************************************************************************)
(* Trace validation for C12.  Events (harness driver `wire`):              *)
(*  dhcp_rt  a message m, Dhcp::serialise(m) walked by the harness's own   *)
(*           TLV walker (chunks, END reached exactly, header fields) and   *)
(*           decoded again by dhcppkt::parse                               *)
(*  frame    Fragment::new_udp4(..).flatten() split by the harness's own   *)
(*           Ethernet/IPv4/UDP splitter                                    *)
(*  bcast    flags -> Dhcp::get_broadcast_flag()                           *)
(***************************************************************************)
EXTENDS DhcpWire, TLC, Json, IOUtils
CONSTANT Enforce
Rec == ndJsonDeserialize(IOEnv.TRACE)
N == Len(Rec)
VARIABLES l, viol, stats
vars == <<l, viol, stats>>

RoundTrip(e) ==
    LET m == e.m  w == e.walk  c == e.crate
        okSer   == e.ser = "ok"
        okWalk  == w.ok /\ w.hdr = m.hdr /\ StreamCarries(w.chunks, m.opts)
                        /\ e.len = FixedHeader + StreamLen(w.chunks, w.pads)
        okCrate == c.outcome = "ok" /\ c.hdr = m.hdr /\ c.opts = m.opts
        shape == IF ~okSer THEN "encoderPanics"
                 ELSE IF \E i \in 1..Len(m.opts) : m.opts[i][2] > 255 /\ ~(okWalk /\ okCrate) THEN "optionLongerThan255Corrupted"
                 ELSE IF ~okWalk THEN "encodedStreamDiffersFromMessage" ELSE "decodeOfEncodeDiffers"
    IN /\ viol' = IF okSer /\ okWalk /\ okCrate THEN viol ELSE viol \cup {<<"C12", l, shape>>}
       /\ stats' = [stats EXCEPT !.rt = @ + 1,
                      !.long = @ + (IF \E i \in 1..Len(m.opts) : m.opts[i][2] > 255 THEN 1 ELSE 0),
                      !.zero = @ + (IF \E i \in 1..Len(m.opts) : m.opts[i][2] = 0 THEN 1 ELSE 0),
                      !.exact255 = @ + (IF \E i \in 1..Len(m.opts) : m.opts[i][2] \in {255, 510} THEN 1 ELSE 0)]

Frame(e) ==
    LET f == e.f
        okLen == /\ f.parsed /\ f.ethertype = 2048 /\ f.ihl = 5 /\ f.version = 4 /\ f.proto = 17
                 /\ f.iplen = 28 + e.n /\ f.udplen = 8 + e.n /\ f.framelen = 42 + e.n
        okIp  == Verifies(IpHeaderSum(f.ipwords))
        okUdp == Verifies(UdpSum(f.srcw, f.dstw, f.udplen, f.udpwords, f.paysum))
        okId  == f.payload_eq /\ f.src = e.src /\ f.dst = e.dst /\ f.sport = e.sport /\ f.dport = e.dport
                 /\ f.smac = e.smac /\ f.dmac = e.dmac
        shape == IF e.build # "ok" THEN "frameBuilderPanics" ELSE IF ~okLen THEN "frameLengthsWrong"
                 ELSE IF ~okIp THEN "ipChecksumWrong" ELSE IF ~okUdp THEN "udpChecksumWrong" ELSE "payloadOrAddressesChanged"
    IN /\ viol' = IF e.build = "ok" /\ okLen /\ okIp /\ okUdp /\ okId THEN viol ELSE viol \cup {<<"C12", l, shape>>}
       /\ stats' = [stats EXCEPT !.frames = @ + 1, !.odd = @ + (e.n % 2)]

Bcast(e) ==
    /\ viol' = IF e.flag = Broadcast(e.flags) THEN viol ELSE viol \cup {<<"C12", l, "broadcastBitMisread">>}
    /\ stats' = [stats EXCEPT !.bcast = @ + 1, !.bset = @ + (IF Broadcast(e.flags) THEN 1 ELSE 0)]

Init == l = 1 /\ viol = {} /\ stats = [rt |-> 0, long |-> 0, zero |-> 0, exact255 |-> 0, frames |-> 0, odd |-> 0, bcast |-> 0, bset |-> 0]
Step == /\ l <= N /\ l' = l + 1
        /\ LET e == Rec[l] IN
           CASE e.ev = "dhcp_rt" -> RoundTrip(e)
             [] e.ev = "frame" -> Frame(e)
             [] e.ev = "bcast" -> Bcast(e)
             [] OTHER -> UNCHANGED <<viol, stats>>
Spec == Init /\ [][Step]_vars
Report == l = N + 1 => PrintT(<<"REPORT", ToJson([viol |-> {v \in viol : v[1] \in Enforce}, drift |-> {}, lines |-> N, stats |-> stats])>>)
Consumed == TLCGet("stats").diameter = N + 1
=============================================================================
