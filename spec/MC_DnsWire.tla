----------------------------- MODULE MC_DnsWire -----------------------------
(***************************************************************************)
(* Model checking of the emission design over all small size vectors:      *)
(* the maximal-prefix strategy with in-place count rewrite satisfies the   *)
(* C04 clauses for every limit; the variant that splices each count from   *)
(* one octet to two (the repaired defect) is longer than the limit allows  *)
(* and is refuted.  Also: the dictionary discipline of the name compressor *)
(* (only offsets < 16384 may be pointer targets) over all placements of a  *)
(* shared suffix around the 16 KiB boundary.                               *)
(***************************************************************************)
EXTENDS DnsWire, TLC
CONSTANTS Sizes, MaxRecs, Limits, Splice
VARIABLES recs, limit, phase
vars == <<recs, limit, phase>>
Q == 17          \* header + a small question

RECURSIVE Cum(_, _)
Cum(s, i) == IF i = 0 THEN Q ELSE Cum(s, i - 1) + s[i]
CumSeq(s) == [i \in 1..Len(s) |-> Cum(s, i)]

Init == recs = <<>> /\ limit \in Limits /\ phase = "build"
Add == phase = "build" /\ Len(recs) < MaxRecs /\ \E z \in Sizes : recs' = Append(recs, z) /\ UNCHANGED <<limit, phase>>
Done == phase = "build" /\ phase' = "emit" /\ UNCHANGED <<recs, limit>>
Next == Add \/ Done
Spec == Init /\ [][Next]_vars

K == MaxPrefix(CumSeq(recs), Q, limit)
OutLen == PrefixLen(CumSeq(recs), Q, K) + (IF Splice /\ K < Len(recs) THEN 3 ELSE 0)
C04Design == phase = "emit" =>
    /\ OutLen <= limit                                   \* within the limit
    /\ (Cum(recs, Len(recs)) <= limit => K = Len(recs))  \* complete when it fits
    /\ (K < Len(recs) <=> Cum(recs, Len(recs)) > limit)  \* TC iff truncated

\* compression dictionary: a suffix first written at offset `first`, reused at `again`
PtrAllowed(first) == first < 16384
DictOK == \A first \in {16382, 16383, 16384, 16385} : \A again \in {first + 10} :
             PtrAllowed(first) <=> PointerOK(<<again, first>>, {first})
=============================================================================
