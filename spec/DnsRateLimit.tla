----------------------------- MODULE DnsRateLimit -----------------------------
(***************************************************************************)
(* Rate limiting of REFUSED replies and the cookie exemption               *)
(* (crates/erbium-core/src/dns/bucket.rs, dns/mod.rs should_ratelimit,     *)
(* IpRateLimiter::check, validate_cookie_keys).                            *)
(*                                                                         *)
(* A bucket is one timestamp z, "when the bucket was last empty"; with     *)
(* capacity B tokens and R tokens/second                                   *)
(*     avail(now) = R * (now - max(z, now - B/R))                          *)
(* Check(cost) reads avail; Deplete(cost) moves z forward by ceil(cost/R). *)
(* In the limiter they are two separate critical sections (read lock,      *)
(* then write lock).                                                       *)
(***************************************************************************)
EXTENDS Integers, Sequences, FiniteSets

Max2(a, b) == IF a >= b THEN a ELSE b
CeilDiv(a, b) == (a + b - 1) \div b
Floor(z, now, B, R) == Max2(z, now - B \div R)
Avail(z, now, B, R) == R * (now - Floor(z, now, B, R))
CheckOK(z, now, cost, B, R) == cost <= Avail(z, now, B, R)
Depleted(z, now, cost, B, R) == Floor(z, now, B, R) + CeilDiv(cost, R)

\* grants: sequence of <<t, cost>> in time order.  Bound: in every window the granted volume is
\* at most burst + rate * length
RECURSIVE SumCost(_, _, _)
SumCost(g, i, j) == IF i > j THEN 0 ELSE g[i][2] + SumCost(g, i + 1, j)
Bound(g, burst, rate) == \A i \in 1..Len(g) : \A j \in i..Len(g) :
                            SumCost(g, i, j) <= burst + rate * (g[j][1] - g[i][1])
\* only the windows ending at the newest grant (incremental form used on traces)
\* (windows longer than 10^5 s are skipped: 32-bit TLC integers; over such a window the envelope exceeds any log kept)
BoundNew(g, burst, rate) == \A i \in 1..Len(g) : LET dt == g[Len(g)][1] - g[i][1] IN
                               dt > 100000 \/ SumCost(g, i, Len(g)) <= burst + rate * dt

\* cookies: an abstract server cookie is the tuple it was computed from
Cookie(key, cc, caddr, saddr) == <<key, cc, caddr, saddr>>
Exempt(c, cur, prev, cc, caddr, saddr) == c = Cookie(cur, cc, caddr, saddr) \/ c = Cookie(prev, cc, caddr, saddr)
=============================================================================
