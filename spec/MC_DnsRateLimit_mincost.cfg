SPECIFICATION Spec
CONSTANTS
  B = 4
  R = 1
  Costs = {5, 6}
  H = 1
  MaxT = 12
CONSTRAINT StateBound
INVARIANTS BoundStrict Quiet
CHECK_DEADLOCK FALSE
