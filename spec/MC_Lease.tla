------------------------------ MODULE MC_Lease ------------------------------
(***************************************************************************)
(* Exhaustive model of the DHCP lease store: every interleaving of         *)
(* DISCOVER/REQUEST messages of a few clients, pool changes between        *)
(* messages, clock ticks and restarts.  Time is unbounded: rows carry      *)
(* age = now - start (saturating once the row is long expired) and         *)
(* L = expiry - start, so the state space is finite.                       *)
(*                                                                         *)
(* Actions mirror the code: Msg = one call of Pool::allocate_address under *)
(* the pool mutex (select_address steps 1-4, clamp, INSERT OR REPLACE,     *)
(* reply); Ignore = a message handle_pkt rejects before touching the       *)
(* store; Tick = one second passes; Restart = process restart (the SQLite  *)
(* file is the only state, so it is a stutter on db).                      *)
(***************************************************************************)
EXTENDS Lease, TLC

CONSTANTS Clients, Addrs, Pools, MinL, MaxL, KnownC09

VARIABLES db,      \* Addr -> [c, age, L]   (c = 0: no row)
          ev       \* the last event (history only; hidden by VIEW)

vars == <<db, ev>>
Cap == MaxL + 1                      \* ages saturate here: row is expired for good

Rel(d) == [x \in Addrs |-> IF d[x].c = 0 THEN NoRow
                           ELSE [c |-> d[x].c, s |-> 0 - d[x].age, e |-> d[x].L - d[x].age]]
Sat(d) == {x \in Addrs : d[x].c # 0 /\ d[x].age = Cap}

NoEv == [kind |-> "none", c |-> 0, req |-> 0, P |-> {}, res |-> "none", y |-> 0, L |-> -1,
         minl |-> MinL, maxl |-> MaxL, dt |-> 0, mtype |-> -1, sidp |-> FALSE, sidin |-> FALSE,
         echo |-> TRUE, rsid |-> TRUE]

Init == db = [x \in Addrs |-> [c |-> 0, age |-> 0, L |-> 0]] /\ ev = NoEv

Msg(kind, c, req, P) ==
    LET pre == Rel(db)
        R == Select(pre, c, req, P, Sat(db))
        base == [NoEv EXCEPT !.kind = kind, !.c = c, !.req = req, !.P = P,
                             !.mtype = IF kind = "discover" THEN 1 ELSE 3]
    IN \E r \in R :
         IF r = NoAddr
         THEN db' = db /\ ev' = [base EXCEPT !.res = IF P = {} THEN "nopool" ELSE "noaddr"]
         ELSE LET L == Clamp(r.L, MinL, MaxL) IN
              /\ db' = [db EXCEPT ![r.y] = [c |-> c, age |-> 0, L |-> L]]
              /\ ev' = [base EXCEPT !.res = "ok", !.y = r.y, !.L = L]

\* a message that is not for this server / not DISCOVER or REQUEST
Ignore(c, mt, sidp) ==
    /\ (mt \in {1, 3} => (mt = 3 /\ sidp))      \* REQUEST naming another server
    /\ db' = db
    /\ ev' = [NoEv EXCEPT !.kind = "other", !.c = c, !.res = "ignored", !.mtype = mt,
                          !.sidp = sidp, !.sidin = FALSE]

Tick == /\ db' = [x \in Addrs |-> IF db[x].c = 0 \/ db[x].age = Cap THEN db[x]
                                  ELSE [db[x] EXCEPT !.age = @ + 1]]
        /\ ev' = [NoEv EXCEPT !.kind = "tick"]

Restart == db' = db /\ ev' = [NoEv EXCEPT !.kind = "restart"]

Next == \/ \E k \in {"discover", "request"}, c \in Clients, req \in Addrs \cup {0}, P \in Pools :
              Msg(k, c, req, P)
        \/ \E c \in Clients, mt \in {0, 3, 4, 7, 8}, s \in BOOLEAN : Ignore(c, mt, s)
        \/ Tick
        \/ Restart

Spec == Init /\ [][Next]_vars

View == db

TypeOK == \A x \in Addrs : db[x].c \in Clients \cup {0} /\ db[x].age \in 0..Cap /\ db[x].L \in 0..MaxL

IsMsg == ev'.kind \in {"discover", "request", "other"}
\* the step predicates, as action properties over (db, ev', db')
P01 == [][IsMsg => C01Step(Rel(db), ev', Rel(db'))]_vars
P09 == [][IsMsg => (C09Step(Rel(db), ev', Rel(db')) \/ (KnownC09 /\ Known_C09_1(Rel(db), ev')))]_vars
P10 == [][IsMsg => C10Step(Rel(db), ev', Rel(db'))]_vars
P13 == [][IsMsg => C13Step(Rel(db), ev', Rel(db'))]_vars

\* state form of C01: no address is ever recorded for two clients -- trivial by
\* the primary key; the substance is P01 (a live row is never overwritten by
\* another client).  Non-vacuity witnesses (expected to be VIOLATED when checked):
WitnessTakeover == [][~(IsMsg /\ ev'.res = "ok" /\ db[ev'.y].c \notin {0, ev'.c})]_vars
WitnessRefusal  == [][~(IsMsg /\ ev'.res = "noaddr")]_vars
=============================================================================
