------------------------------- MODULE Lease -------------------------------
(***************************************************************************)
(* Shared, constant-level definitions for the DHCP lease store of erbium   *)
(* (crates/erbium-core/src/dhcp/pool.rs + dhcp/mod.rs).                    *)
(*                                                                         *)
(* Used verbatim by                                                        *)
(*   MC_Lease.tla     exhaustive model checking of the allocation design   *)
(*   LeaseTrace.tla   validation of traces recorded from the real code     *)
(* so the step predicates that TLC proves of the model are textually the   *)
(* predicates the implementation is judged by.                             *)
(*                                                                         *)
(* A lease table is a function  Addr -> Row,  Row = [c, s, e]:             *)
(*   c  client (0 = no row), s = start, e = expiry, both RELATIVE to the   *)
(*   instant t0 at which the step under consideration began.  So           *)
(*      e > 0   the lease is unexpired at t0     (SQL: expiry >  now)      *)
(*      e >= 0  the address is blocked for others (SQL: expiry >= now)     *)
(*   and -s is the age of the lease.  a.dt = t1 - t0 >= 0 is the width of  *)
(*   the interval in which the implementation produced its reply (0 in the *)
(*   model; 0 or 1 s on real traces) -- predicates use the end of the      *)
(*   interval that demands LESS of the code.                               *)
(***************************************************************************)
EXTENDS Integers, FiniteSets, Sequences

NoRow == [c |-> 0, s |-> 0, e |-> 0]
Has(r) == r.c # 0
Row(db, x) == IF x \in DOMAIN db THEN db[x] ELSE NoRow

LiveC(r, dt) == Has(r) /\ r.e > dt     \* certainly unexpired when the reply was produced
LiveP(r)     == Has(r) /\ r.e > 0      \* possibly unexpired
BlockedP(r)  == Has(r) /\ r.e >= 0     \* possibly still blocking other clients

Max2(a, b) == IF a >= b THEN a ELSE b
Min2(a, b) == IF a <= b THEN a ELSE b

(***************************************************************************)
(* An event  a  (one DHCP message handled / one allocate_address call):    *)
(*  kind  "discover" | "request" | "other"                                 *)
(*  c     client (>0)        req  requested address / ciaddr (0 = none)    *)
(*  P     effective address pool (set)                                     *)
(*  res   "ok" | "noaddr" | "nopool" | "ignored" | "err" | "panic"         *)
(*  y     yiaddr (0 if none) L  advertised lease time (-1 = not carried)   *)
(*  minl, maxl  configured bounds     dt  see above                        *)
(*  mtype message type 0..255, -1 none;  sidp  server-id present;          *)
(*  sidin server-id in the server's id set;  echo  reply echoes xid,       *)
(*  chaddr, giaddr, flags;  rsid  reply server-id names this server        *)
(***************************************************************************)
Replied(a) == a.res = "ok"

(* ---------------------------- C01 ------------------------------------- *)
(* "holds(c,x,t)": a reply with yiaddr = x was produced for c and the      *)
(* lease recorded for it is unexpired.  The client column of `pre` must    *)
(* therefore say who was last TOLD x; the trace follower guarantees that   *)
(* by overriding the stored client column with its own ghost record of     *)
(* the last successful reply per address (WithTold below); in the model    *)
(* the two coincide by construction.                                       *)
WithTold(pre, told) ==
    [x \in DOMAIN pre |-> IF x \in DOMAIN told /\ told[x] # 0 /\ Has(pre[x])
                          THEN [pre[x] EXCEPT !.c = told[x]] ELSE pre[x]]
C01Step(pre, a, post) ==
    Replied(a) => ~(LiveC(Row(pre, a.y), a.dt) /\ Row(pre, a.y).c # a.c)
C01Shape(pre, a, post) == "liveLeaseOfOtherClientReassigned"

(* ---------------------------- C09 ------------------------------------- *)
HeldC(pre, a) == {x \in a.P : LiveC(Row(pre, x), a.dt) /\ Row(pre, x).c = a.c}
HeldP(pre, a) == {x \in a.P : LiveP(Row(pre, x)) /\ Row(pre, x).c = a.c}
Serving(a) == a.kind \in {"discover", "request"} /\ a.res \in {"ok", "noaddr"}

C09Keep(pre, a)   == HeldC(pre, a) # {} => a.res = "ok" /\ a.y \in HeldP(pre, a)
C09Named(pre, a)  == a.req \in HeldC(pre, a) => a.res = "ok" /\ a.y = a.req
C09Refuse(pre, a) == a.res = "noaddr" =>
                        \A x \in a.P : BlockedP(Row(pre, x)) /\ Row(pre, x).c # a.c
C09Step(pre, a, post) ==
    Serving(a) => C09Keep(pre, a) /\ C09Named(pre, a) /\ C09Refuse(pre, a)

(* The one row step 1 of select_address looks at: the requested address if *)
(* the client holds it live, otherwise its latest-expiring live lease.     *)
MineLive(pre, c) == {x \in DOMAIN pre : pre[x].c = c /\ pre[x].e > 0}
TopOf(pre, S, req) ==
    IF req \in S THEN {req} ELSE {x \in S : \A z \in S : pre[z].e <= pre[x].e}
\* former finding C09-1 (repaired; the disjunct is kept so that the shape keeps its name and MC can be run with
\* KnownC09 = TRUE against the old behaviour): the single row that step 1 (live leases) or step 2 (any
\* lease, live or expired) of select_address looks at lies outside the serving
\* pool, so a lease the client holds INSIDE the pool is never considered.
MineAny(pre, c) == {x \in DOMAIN pre : pre[x].c = c}
Known_C09_1(pre, a) ==
    /\ Serving(a)
    /\ \/ \E x \in TopOf(pre, MineLive(pre, a.c), a.req) : x \notin a.P
       \/ \E x \in TopOf(pre, MineAny(pre, a.c), a.req) : x \notin a.P
C09Shape(pre, a, post) ==
    IF Known_C09_1(pre, a) THEN "heldLeaseIgnored.topLeaseRowOutsidePool"
    ELSE IF ~C09Refuse(pre, a) THEN "refusedThoughPoolNotExhausted"
    ELSE IF ~C09Named(pre, a) THEN "namedHeldAddressNotGiven"
    ELSE "heldLeaseNotKept"

(* ---------------------------- C10 ------------------------------------- *)
C10Carried(a)  == a.L # -1
C10Bounds(a)   == a.minl <= a.L /\ a.L <= a.maxl
C10Record(a, post) == LET r == Row(post, a.y) IN
                      Has(r) /\ r.c = a.c /\ r.e >= a.L /\ r.e - r.s = a.L
C10Step(pre, a, post) ==
    (Replied(a) /\ a.kind \in {"discover", "request"}) =>
        C10Carried(a) /\ C10Bounds(a) /\ C10Record(a, post)
C10Shape(pre, a, post) ==
    IF ~C10Carried(a) THEN (IF a.kind = "discover" THEN "offerWithoutLeaseTime"
                                                   ELSE "ackWithoutLeaseTime")
    ELSE IF ~C10Bounds(a) THEN "leaseTimeOutOfBounds"
    ELSE "recordDoesNotCoverAdvertisedLease"

(* ---------------------------- C13 ------------------------------------- *)
SameExcept(pre, post, S) ==
    \A x \in (DOMAIN pre) \cup (DOMAIN post) : x \in S \/ Row(pre, x) = Row(post, x)
C13Gate(a)  == Replied(a) => /\ a.mtype \in {1, 3}
                             /\ (a.mtype = 3 => (~a.sidp \/ a.sidin))
                             /\ a.P # {}
C13Quiet(pre, a, post) == ~Replied(a) => SameExcept(pre, post, {})
C13Local(pre, a, post) == Replied(a) => SameExcept(pre, post, {a.y})
C13Echo(a)  == Replied(a) => a.echo /\ a.rsid
C13Step(pre, a, post) ==
    C13Gate(a) /\ C13Quiet(pre, a, post) /\ C13Local(pre, a, post) /\ C13Echo(a)
C13Shape(pre, a, post) ==
    IF ~C13Gate(a) THEN "repliedToMessageNotMeantForThisServer"
    ELSE IF ~C13Quiet(pre, a, post) THEN "storeChangedWithoutReply"
    ELSE IF ~C13Local(pre, a, post) THEN "otherLeaseRowTouched"
    ELSE "replyHeaderOrServerIdWrong"

(***************************************************************************)
(* What erbium does today: the four steps of Pool::select_address as a     *)
(* RESULT SET (several results where SQLite's order or the address hash    *)
(* decides).  Sat = rows whose age is saturated in the finite model (their *)
(* relative order is unknown); {} on real traces.                          *)
(***************************************************************************)
Fall == [y |-> 0, L |-> 0, how |-> "fall"]

\* (since the repair of C09-1 steps 1 and 2 consider the client's rows INSIDE the serving pool only;
\*  before it they looked at the single best row of all and gave up when that one was outside)
Sel1(pre, c, req, P) ==
    LET S == MineLive(pre, c) \cap P IN
    IF S = {} THEN {Fall}
    ELSE {[y |-> x, L |-> 3 * (0 - pre[x].s), how |-> "reuse"] : x \in TopOf(pre, S, req)}

Sel2(pre, c, req, P, Sat) ==
    LET S == {x \in DOMAIN pre : pre[x].c = c} \cap P
        T == IF req \in S THEN {req}
             ELSE {x \in S : \A z \in S \ Sat : pre[z].e <= pre[x].e}   \* e of a saturated row is an upper bound
    IN IF S = {} THEN {Fall}
       ELSE {[y |-> x, L |-> 2 * (pre[x].e - pre[x].s), how |-> "revive"] : x \in T}

Sel3(pre, c, req, P) ==
    IF req # 0 /\ req \in P /\ ~BlockedP(Row(pre, req))
    THEN {[y |-> req, L |-> 0, how |-> "requested"]} ELSE {Fall}

NoAddr == [y |-> 0, L |-> 0, how |-> "noaddr"]      \* NoAssignableAddress
Sel4(pre, c, req, P) ==
    LET F == {z \in P : ~BlockedP(Row(pre, z))} IN
    IF F = {} THEN {NoAddr} ELSE {[y |-> x, L |-> 0, how |-> "new"] : x \in F}

Then(S, T) == (S \ {Fall}) \cup (IF Fall \in S THEN T ELSE {})

\* never empty; NoAddr among the results = the call may fail with NoAssignableAddress
Select(pre, c, req, P, Sat) ==
    Then(Sel1(pre, c, req, P),
      Then(Sel2(pre, c, req, P, Sat),
        Then(Sel3(pre, c, req, P), Sel4(pre, c, req, P))))

Clamp(L, minl, maxl) == Min2(Max2(L, minl), maxl)
=============================================================================
