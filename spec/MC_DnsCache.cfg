SPECIFICATION Spec
CONSTANTS
  Keys = {"k1", "k2"}
  TtlVecs <- MCTtlVecs
  StepMs = 500
  MaxTtl = 3
VIEW View
PROPERTIES P06
CHECK_DEADLOCK FALSE
