SPECIFICATION Spec
CONSTANT Enforce = {"C12"}
INVARIANT Report
POSTCONDITION Consumed
CHECK_DEADLOCK FALSE
