SPECIFICATION Spec
CONSTANT Enforce = {"C06"}
INVARIANT Report
POSTCONDITION Consumed
CHECK_DEADLOCK FALSE
