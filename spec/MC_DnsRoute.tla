------------------------------ MODULE MC_DnsRoute ------------------------------
(***************************************************************************)
(* Exhaustive check of the routing model over tables of up to three routes *)
(* with nested and sibling suffixes and names in mixed case:               *)
(*  - the outcome is invariant under every permutation of the table and of *)
(*    the suffixes inside a route, and under the case of the query name    *)
(*  - a name under a forge-nxdomain suffix that is the longest match is    *)
(*    never forwarded; a name without route is a server failure            *)
(* and enumeration of (table, name) cases for the harness.                 *)
(***************************************************************************)
EXTENDS DnsRoute, TLC, Json
VARIABLES tbl, name
vars == <<tbl, name>>
L(s) == CASE s = "com" -> <<99, 111, 109>> [] s = "example" -> <<101, 120, 97, 109, 112, 108, 101>> [] s = "ads" -> <<97, 100, 115>>
          [] s = "www" -> <<119, 119, 119>> [] s = "net" -> <<110, 101, 116>> [] s = "EXAMPLE" -> <<69, 88, 65, 77, 80, 76, 69>>
          [] s = "Www" -> <<87, 119, 119>> [] s = "Com" -> <<67, 111, 109>>
Nm(seq) == [i \in 1..Len(seq) |-> L(seq[i])]
SufNames == {<<>>, <<"com">>, <<"example", "com">>, <<"ads", "example", "com">>, <<"net">>, <<"EXAMPLE", "Com">>}
QNames == {<<"www", "example", "com">>, <<"Www", "EXAMPLE", "Com">>, <<"ads", "example", "com">>, <<"www", "ads", "example", "com">>,
          <<"example", "com">>, <<"com">>, <<"www", "net">>, <<>>, <<"example">>}
RouteSet == [suffixes : {<<Nm(a)>> : a \in SufNames} \cup {<<Nm(a), Nm(b)>> : a \in {<<"com">>, <<"net">>}, b \in {<<"ads", "example", "com">>, <<>>}},
             kind : {"forward", "nxdomain"}, up : {1}]
Tables == {<<>>} \cup {<<r>> : r \in RouteSet} \cup
          {<<[r1 EXCEPT !.up = 1], [r2 EXCEPT !.up = 2]>> : r1 \in RouteSet, r2 \in {x \in RouteSet : Len(x.suffixes) = 1}}
Init == tbl \in Tables /\ name \in QNames
Next == UNCHANGED vars
Spec == Init /\ [][Next]_vars
Rev(s) == [i \in 1..Len(s) |-> s[Len(s) + 1 - i]]
RevSuf(t) == [i \in 1..Len(t) |-> [t[i] EXCEPT !.suffixes = Rev(@)]]
Upper(n) == [i \in 1..Len(n) |-> [j \in 1..Len(n[i]) |-> IF n[i][j] >= 97 /\ n[i][j] <= 122 THEN n[i][j] - 32 ELSE n[i][j]]]
PermInvariant == \A rd \in BOOLEAN : Outcomes(tbl, Nm(name), rd) = Outcomes(Rev(tbl), Nm(name), rd)
                                  /\ Outcomes(tbl, Nm(name), rd) = Outcomes(RevSuf(tbl), Nm(name), rd)
CaseInvariant == \A rd \in BOOLEAN : Outcomes(tbl, Nm(name), rd) = Outcomes(tbl, Upper(Nm(name)), rd)
Total == \A rd \in BOOLEAN : Outcomes(tbl, Nm(name), rd) # {}
NoRoute == (\A r \in 1..Len(tbl) : \A i \in 1..Len(tbl[r].suffixes) : ~IsSuffix(tbl[r].suffixes[i], Nm(name)))
              => Outcomes(tbl, Nm(name), TRUE) = {[kind |-> "servfail", up |-> 0]}
=============================================================================
