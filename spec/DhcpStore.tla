------------------------------ MODULE DhcpStore ------------------------------
(***************************************************************************)
(* The lease database file as SQLite presents it, and the open/migrate     *)
(* step machine of Pool::setup_db (crates/erbium-core/src/dhcp/pool.rs),   *)
(* one action per SQL statement, with a process crash (SIGKILL) enabled    *)
(* between any two statements.  SQLite's own guarantee is assumed: each    *)
(* statement (autocommit) or explicit transaction is atomic and durable    *)
(* against process death.                                                  *)
(*                                                                         *)
(* File state:                                                             *)
(*   sv     "none" (no schema_version table) | "empty" (table, no row for  *)
(*          key 'pool') | "v0" | "v1" | "v2" (recorded version; v2 = newer) *)
(*   shape  "absent" | "v0" (leases without options column) | "v1"         *)
(*   rows   set of lease rows (abstract ids)                               *)
(* Process state: pc.  acked: rows whose reply has been produced.          *)
(*                                                                         *)
(* Atomic = FALSE: the code before the repair (statement-by-statement).    *)
(* Atomic = TRUE : each migration step and the version row it records are  *)
(*                 one transaction (the `fix:` commit).                    *)
(***************************************************************************)
EXTENDS Integers, FiniteSets, TLC

CONSTANTS RowIds,       \* rows that may be allocated
          Atomic,       \* see above
          InitFiles     \* set of initial file states [sv, shape, rows]

VARIABLES sv, shape, rows, pc, pend, acked, init
vars == <<sv, shape, rows, pc, pend, pend, acked, init>>
file == [sv |-> sv, shape |-> shape, rows |-> rows]

Init == /\ \E f \in InitFiles : sv = f.sv /\ shape = f.shape /\ rows = f.rows /\ init = f
        /\ pc = "down" /\ acked = {} /\ pend = "-"

Open == pc = "down" /\ pc' = "s1" /\ UNCHANGED <<sv, shape, rows, pend, acked, init>>

\* CREATE TABLE IF NOT EXISTS schema_version
CreateSV == /\ pc = "s1"
            /\ sv' = IF sv = "none" THEN "empty" ELSE sv
            /\ pc' = "loop"
            /\ UNCHANGED <<shape, rows, pend, acked, init>>

\* SELECT version FROM schema_version WHERE key = 'pool'
ReadVersion == /\ pc = "loop"
               /\ pc' = CASE sv = "empty" -> "probe"
                          [] sv = "v0" -> "alter"
                          [] sv = "v1" -> "up"
                          [] OTHER -> "refusedNewer"
               /\ UNCHANGED <<sv, shape, rows, pend, acked, init>>

\* SELECT 1 FROM leases LIMIT 1  -- does the table exist?
Probe == /\ pc = "probe"
         /\ IF shape = "absent" THEN pc' = "create" /\ UNCHANGED sv
            ELSE IF Atomic THEN sv' = "v0" /\ pc' = "loop"      \* nothing else in this step's transaction
            ELSE pc' = "setver0" /\ UNCHANGED sv
         /\ UNCHANGED <<shape, rows, pend, acked, init>>

\* CREATE TABLE leases (... options BLOB ...)   [+ version row when Atomic]
Create == /\ pc = "create"
          /\ shape' = "v1"
          /\ IF Atomic THEN sv' = "v1" /\ pc' = "loop" ELSE pc' = "setver1" /\ UNCHANGED sv
          /\ UNCHANGED <<rows, pend, acked, init>>

\* ALTER TABLE leases ADD COLUMN options BLOB   [+ version row when Atomic]
Alter == /\ pc = "alter"
         /\ IF shape = "v0"
            THEN /\ shape' = "v1"
                 /\ IF Atomic THEN sv' = "v1" /\ pc' = "loop" ELSE pc' = "setver1" /\ UNCHANGED sv
            ELSE pc' = "failed" /\ UNCHANGED <<sv, shape>>   \* duplicate column name / no such table
         /\ UNCHANGED <<rows, pend, acked, init>>

\* INSERT OR REPLACE INTO schema_version
SetVer == /\ pc \in {"setver0", "setver1"}
          /\ sv' = IF pc = "setver0" THEN "v0" ELSE "v1"
          /\ pc' = "loop"
          /\ UNCHANGED <<shape, rows, pend, acked, init>>

\* INSERT OR REPLACE INTO leases (one atomic statement), then the reply
Alloc(r) == pc = "up" /\ rows' = rows \cup {r} /\ pc' = "reply" /\ pend' = r /\ UNCHANGED <<sv, shape, acked, init>>
Reply == /\ pc = "reply"
         /\ acked' = acked \cup {pend} /\ pc' = "up" /\ UNCHANGED <<sv, shape, rows, pend, init>>

\* SIGKILL at any point; orderly exit after a refused open or a close
Crash == pc # "down" /\ pc' = "down" /\ UNCHANGED <<sv, shape, rows, pend, acked, init>>

Next == Open \/ CreateSV \/ ReadVersion \/ Probe \/ Create \/ Alter \/ SetVer
        \/ (\E r \in RowIds : Alloc(r)) \/ Reply \/ Crash
Spec == Init /\ [][Next]_vars

(* ------------------------------ properties ----------------------------- *)
\* the crash-intermediate file shape of the open finding C18-1
KnownShape == shape = "v1" /\ sv \in {"empty", "v0"}

\* C18b: unless the file is from a newer schema, opening never fails
C18b == pc = "failed" => (~Atomic /\ KnownShape)
C18bStrict == pc # "failed"       \* refuted when Atomic = FALSE (documents the repaired defect)
\* C18a: no step of opening/migrating loses or changes a row
C18a == [][rows \subseteq rows']_vars
\* C18c: every lease whose reply was produced is in the file
C18c == acked \subseteq rows
\* C18d: a newer schema is refused and the file left exactly as it was
C18d == (init.sv = "v2") => (pc # "up" /\ file = init)
\* the version row never claims more than the table has
VersionHonest == (sv = "v1" => shape = "v1")

TypeOK == /\ sv \in {"none", "empty", "v0", "v1", "v2"} /\ shape \in {"absent", "v0", "v1"}
          /\ rows \subseteq RowIds \cup UNION {f.rows : f \in InitFiles}

\* enumeration of every file state a crash can leave behind (for the harness)
FileStates == pc = "down" => PrintT(<<"CASE", file>>)
=============================================================================
