------------------------------- MODULE DnsWire -------------------------------
(***************************************************************************)
(* DNS messages on the wire (crates/erbium-core/src/dns/dnspkt.rs,         *)
(* dns/parse.rs, the transport limits of dns/mod.rs).                      *)
(*                                                                         *)
(* (a) Size-limited emission (C04).  A response is a header (12 octets),   *)
(*     the question, and the records of answer ++ authority ++ additional  *)
(*     (+OPT).  cum[i] = length of the message after record i in the       *)
(*     unlimited encoding (cum[0] = end of the question).  Emit(limit)     *)
(*     keeps a PREFIX of k records; the header counts say how many of      *)
(*     each section are present; TC is set iff k < n.                      *)
(* (b) Name compression (C14).  The encoder, seen through its output, is a *)
(*     set of label starts written so far; a pointer at offset `at` to     *)
(*     `target` is legal iff target < at, target < 16384 and target is a   *)
(*     label start written before.                                         *)
(***************************************************************************)
EXTENDS Integers, Sequences, FiniteSets

Max2(a, b) == IF a >= b THEN a ELSE b

\* ---- (a) ---------------------------------------------------------------
UdpLimit(advertised) == Max2(512, advertised)      \* advertised = 0: no EDNS
TcpLimit == 65535
\* how many records of each section a prefix of k records contains
SecCounts(k, n1, n2, n3) == <<IF k <= n1 THEN k ELSE n1,
                              IF k <= n1 THEN 0 ELSE IF k <= n1 + n2 THEN k - n1 ELSE n2,
                              IF k <= n1 + n2 THEN 0 ELSE k - n1 - n2>>
\* the length of a prefix of k records: cum is 1-based over records, q = end of question
PrefixLen(cum, q, k) == IF k = 0 THEN q ELSE cum[k]
\* C04 for one emitted message
WellFormed(o) == o.parse_ok /\ o.hdr_counts = o.sec_lens
Within(o, limit) == o.len <= limit
IsPrefix(o, all) == Len(o.recs) <= Len(all) /\ \A i \in 1..Len(o.recs) : o.recs[i] = all[i]
TcRight(o, all) == o.tc <=> (Len(o.recs) < Len(all))
CountsRight(o, secfull) == <<o.sec_lens[1], o.sec_lens[2], o.sec_lens[3]>> = SecCounts(Len(o.recs), secfull[1], secfull[2], secfull[3])
Complete(o, all, fulllen, limit) == fulllen <= limit => Len(o.recs) = Len(all)

\* the emission strategy of erbium today: the maximal prefix that fits
MaxPrefix(cum, q, limit) == CHOOSE k \in 0..Len(cum) :
                               /\ PrefixLen(cum, q, k) <= limit
                               /\ \A j \in (k + 1)..Len(cum) : j = k + 1 => cum[j] > limit

\* ---- (b) ---------------------------------------------------------------
PointerOK(p, starts) == p[2] < p[1] /\ p[2] < 16384 /\ p[2] \in starts
=============================================================================
