------------------------------ MODULE WireGrammar ------------------------------
(***************************************************************************)
(* Structure-aware input space for C05.  Each wire format is a header plus *)
(* a list of length-prefixed items (DHCP options, EDNS options, ND options, *)
(* LLDP TLVs, DNS records) whose inner decoders assume a minimum size, and  *)
(* DNS names whose compression pointers may point anywhere.  TLC enumerates *)
(* the product of (position, kind, boundary length, fill pattern, whether   *)
(* the declared length tells the truth) for every format; the harness       *)
(* assembles a CONSISTENT packet around each case (outer lengths and counts *)
(* adjusted unless the case says to lie), which is what octet-level         *)
(* mutation and random strings do not reach.                                *)
(*                                                                         *)
(* The follower (IngestTrace.tla) checks that every case enumerated here    *)
(* was fed to every handler it applies to (Cases \subseteq fed) and that    *)
(* each feed ended in "ok" or "err".                                        *)
(***************************************************************************)
EXTENDS Integers, Sequences, FiniteSets, TLC, Json

Fills == {"zero", "ff", "inc", "len"}
\* does the declared length match the body? "exact"; "over" = declares more than is present (runs past
\* the end of the enclosing unit); "under" = declares less (trailing octets inside the enclosing unit)
Lies == {"exact", "over", "under"}

DhcpCodes == {0, 1, 3, 6, 12, 15, 26, 33, 50, 51, 52, 53, 54, 55, 57, 61, 81, 82, 119, 121, 249, 255}
DhcpLens == {0, 1, 2, 3, 4, 5, 6, 7, 8, 9, 16, 254, 255}
EdnsCodes == {3, 8, 10, 15, 65001}
EdnsLens == {0, 1, 2, 3, 7, 8, 9, 15, 16, 24, 32, 33, 40, 300}
NdCodes == {0, 1, 3, 5, 24, 25, 31, 37, 38, 200}
NdLens == {0, 6, 14, 22, 30, 38, 46, 2038}      \* body octets; the length field is (2 + body) / 8, 0 for body 0
LldpCodes == {0, 1, 2, 3, 4, 5, 6, 7, 8, 9, 127}
LldpLens == {0, 1, 2, 3, 4, 5, 6, 7, 9, 12, 33, 34, 255, 511}

Items == [k : {"item"}, fmt : {"dhcp"}, code : DhcpCodes, len : DhcpLens, fill : Fills, lie : {"exact"}]
    \cup [k : {"item"}, fmt : {"dhcp"}, code : DhcpCodes, len : {1, 4, 255}, fill : {"inc"}, lie : {"over"}]
    \cup [k : {"item"}, fmt : {"edns"}, code : EdnsCodes, len : EdnsLens, fill : Fills, lie : {"exact"}]
    \cup [k : {"item"}, fmt : {"edns"}, code : EdnsCodes, len : {1, 8, 16}, fill : {"inc"}, lie : {"over", "under"}]
    \cup [k : {"item"}, fmt : {"nd"}, code : NdCodes, len : NdLens, fill : Fills, lie : {"exact"}]
    \cup [k : {"item"}, fmt : {"nd"}, code : NdCodes, len : {6, 14, 30}, fill : {"inc"}, lie : {"over"}]
    \cup [k : {"item"}, fmt : {"lldp"}, code : LldpCodes, len : LldpLens, fill : Fills, lie : {"exact"}]
    \cup [k : {"item"}, fmt : {"lldp"}, code : LldpCodes, len : {1, 7, 34}, fill : {"inc"}, lie : {"over"}]

\* two DHCP options in sequence: concatenation of split options (RFC 3396), overload (52) with the
\* file/sname fields holding options or garbage, pad/end placement
DhcpPairs == [k : {"pair"}, fmt : {"dhcp"}, c1 : {12, 52, 55, 61, 121, 0, 255}, l1 : {0, 1, 255}, c2 : {12, 52, 55, 61, 121, 0, 255}, l2 : {0, 1, 255},
              over : {0, 1, 2, 3, 4}, area : {"zero", "opts", "noend", "ff"}]

Headers == [k : {"hdr"}, fmt : {"dhcphdr"}, field : {"hlen", "op", "htype", "hops", "magic", "flags"}, val : {0, 1, 5, 6, 7, 15, 16, 17, 128, 255}]
    \cup [k : {"hdr"}, fmt : {"dnshdr"}, field : {"qdcount", "ancount", "nscount", "arcount", "flags"}, val : {0, 1, 2, 255, 32768, 65535}]
    \cup [k : {"hdr"}, fmt : {"ndhdr"}, field : {"type", "code", "hop", "flags"}, val : {0, 1, 133, 134, 135, 255}]

\* DNS names: where the name sits and what is wrong with it
NameShapes == {"self", "loop1", "loop2", "loop3", "fwd", "hdrptr", "oob", "chain1", "chain9", "chain10", "chain11", "chain12", "chain40",
               "label63", "label64", "label128", "name255", "name256", "name1000", "runsout", "halfptr", "empty", "ptrtoroot", "ptrtoqtype"}
NamePos == {"qname", "owner-an", "owner-ns", "owner-ar", "cname", "ns", "ptr", "mx", "soa-mname", "soa-rname", "afsdb", "rp-mbox", "rp-txt", "rt", "naptr"}
Names == [k : {"name"}, fmt : {"dns"}, shape : NameShapes, pos : NamePos]

\* DNS records: type x rdlength x honesty, in each section
RTypes == {0, 1, 2, 5, 6, 12, 15, 16, 17, 18, 21, 28, 33, 35, 41, 43, 46, 47, 48, 50, 64, 65, 99, 250, 255, 65535}
RdLens == {0, 1, 2, 3, 4, 5, 15, 16, 17, 19, 20, 21, 22, 255}
Records == [k : {"rr"}, fmt : {"dns"}, rtype : RTypes, len : RdLens, fill : {"zero", "ff", "inc"}, lie : {"exact"}, sec : {"an", "ar"}]
      \cup [k : {"rr"}, fmt : {"dns"}, rtype : RTypes, len : {0, 4, 20}, fill : {"inc"}, lie : {"over", "under"}, sec : {"an", "ns", "ar"}]

\* LLDP management address TLV (the one with inner lengths): address string length x OID length x honesty
Mgmt == [k : {"mgmt"}, fmt : {"lldp"}, alen : {0, 1, 2, 5, 17, 32, 33, 255}, olen : {0, 1, 128, 129, 255}, lie : Lies]

\* two OPT records, OPT in the wrong section, OPT with a name, EDNS version / extended rcode boundary values
Opt == [k : {"opt"}, fmt : {"dns"}, where : {"an", "ns", "ar", "twice"}, owner : {"root", "name", "ptr"}, version : {0, 1, 255}, ercode : {0, 1, 255}, size : {0, 511, 512, 65535}]

Cases == Items \cup DhcpPairs \cup Headers \cup Names \cup Records \cup Mgmt \cup Opt

VARIABLE c
Init == c \in Cases
Next == UNCHANGED c
Spec == Init /\ [][Next]_c
Emit == PrintT(<<"CASE", ToJson(c)>>)
=============================================================================
