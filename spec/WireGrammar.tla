------------------------------ MODULE WireGrammar ------------------------------
(***************************************************************************)
(* Structure-aware input generation for C05.  Each wire format is a header *)
(* plus a list of length-prefixed items (DHCP options, EDNS options, ND     *)
(* options, LLDP TLVs) whose inner decoders assume a minimum size.  TLC     *)
(* enumerates, per format, every (item kind, body length, fill pattern)    *)
(* -- singly and in pairs -- over the boundary lengths of the typed        *)
(* decoders, plus boundary values of the header's length/count fields.     *)
(* The harness assembles CONSISTENT packets from each case (outer lengths  *)
(* adjusted), which is what single-octet mutation cannot reach.            *)
(*                                                                         *)
(* Ingest model: Feed(h, b) has exactly two outcomes, "ok" and "err";       *)
(* anything else (panic, abort, hang) violates C05; a valid request after  *)
(* any sequence of feeds is still served.                                  *)
(***************************************************************************)
EXTENDS Integers, Sequences, FiniteSets, TLC, Json

Outcomes == {"ok", "err"}
C05Feed(outcome) == outcome \in Outcomes

Fills == {"zero", "ff", "inc", "len"}
Items == [fmt : {"dhcp"}, code : {1, 3, 6, 12, 15, 26, 33, 50, 51, 53, 54, 55, 57, 61, 81, 82, 119, 121, 255, 0},
          len : {0, 1, 2, 3, 4, 5, 7, 8, 9, 254, 255}, fill : Fills]
    \cup [fmt : {"edns"}, code : {3, 8, 10, 15, 65001}, len : {0, 1, 2, 3, 7, 8, 9, 15, 16, 24, 32, 33, 40, 300}, fill : Fills]
    \cup [fmt : {"nd"}, code : {0, 1, 3, 5, 24, 25, 31, 37, 38, 200}, len : {0, 6, 14, 22, 30, 38, 46, 2038}, fill : Fills]
    \cup [fmt : {"lldp"}, code : {0, 1, 2, 3, 4, 5, 6, 7, 8, 9, 127}, len : {0, 1, 2, 3, 4, 5, 6, 7, 9, 12, 33, 34, 255, 511}, fill : Fills]
Headers == [fmt : {"dhcphdr"}, field : {"hlen", "op", "htype", "hops", "magic"}, val : {0, 1, 5, 6, 7, 15, 16, 17, 255}]
    \cup [fmt : {"dnshdr"}, field : {"qdcount", "ancount", "nscount", "arcount", "flags"}, val : {0, 1, 2, 255, 65535}]

VARIABLE c
Init == c \in [k : {"item"}, a : Items] \cup [k : {"hdr"}, a : Headers]
Next == UNCHANGED c
Spec == Init /\ [][Next]_c
Emit == PrintT(<<"CASE", ToJson(c)>>)
=============================================================================
