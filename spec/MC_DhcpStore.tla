---------------------------- MODULE MC_DhcpStore ----------------------------
EXTENDS DhcpStore, Json
CONSTANT AtomicC
MCInitFiles == {[sv |-> "none", shape |-> "absent", rows |-> {}],          \* fresh file
                [sv |-> "none", shape |-> "v0", rows |-> {"old1", "old2"}], \* pre-versioning database
                [sv |-> "none", shape |-> "v0", rows |-> {}],
                [sv |-> "v1", shape |-> "v1", rows |-> {"old1"}],              \* current
                [sv |-> "v2", shape |-> "v1", rows |-> {"old1"}]}              \* newer, unknown
MCRowIds == {"n1", "n2"}
Emit == pc = "down" => PrintT(<<"CASE", ToJson([sv |-> sv, shape |-> shape, nrows |-> Cardinality(rows)])>>)
=============================================================================
