SPECIFICATION GSpec
CONSTANTS
  Clients = {1, 2, 3}
  Addrs = {1, 2, 3}
  Pools = {{1, 2, 3}, {1, 2}, {3}, {2, 3}}
  MinL = 2
  MaxL = 4
  KnownC09 = FALSE
  Depth = 20
INVARIANT Emit
CHECK_DEADLOCK FALSE
