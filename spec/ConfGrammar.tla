------------------------------ MODULE ConfGrammar ------------------------------
(***************************************************************************)
(* The configuration grammar of erbium.conf(5) as the input space of C19:  *)
(* every position of a document that uses every key of the grammar, and    *)
(* for each position every replacement the property's quantifier names --  *)
(* values of each wrong type, empty collections, missing keys, and the     *)
(* boundary values of the position's own type (prefix lengths 0..255,      *)
(* negative/huge/malformed durations, addresses of the wrong family, ...). *)
(* A replacement is the YAML text to put at the position (or a macro in    *)
(* angle brackets that the harness expands: <delete>, <str:N>, ...).       *)
(*                                                                         *)
(* The load/serve model (ConfTrace.tla): Load(text) has two outcomes,      *)
(* "ok" and "err" (with a non-empty message); Serve(config, request) after *)
(* "ok" has the outcomes "ok"; anything else (panic, abort, hang) violates *)
(* C19.  The follower also checks that every case enumerated here was      *)
(* loaded (completeness of the structured part).                           *)
(***************************************************************************)
EXTENDS Integers, Sequences, FiniteSets, TLC, Json

\* position -> type.  Paths address the base document of lib/conf_base.py (checked to agree).
F(p, t) == [path |-> p, type |-> t]
Fields == {
  F("addresses", "list"), F("addresses/0", "prefix4"), F("addresses/1", "prefix6"),
  F("dns-servers", "list"), F("dns-servers/0", "ip"), F("dns-servers/2", "ip"), F("dns-servers/3", "ip"),
  F("dns-search", "list"), F("dns-search/0", "domain"),
  F("captive-portal", "url"),
  F("api-listeners", "list"), F("api-listeners/0", "sockaddr"), F("api-listeners/1", "sockaddr"),
  F("dns-listeners", "list"), F("dns-listeners/0", "sockaddr"),
  F("default-listen-style", "listenstyle"),
  F("acls", "list"), F("acls/0", "map"), F("acls/0/match-subnets", "list"), F("acls/0/match-subnets/0", "prefix4"), F("acls/0/match-subnets/1", "prefix6"),
  F("acls/0/apply-access", "list"), F("acls/0/apply-access/0", "access"), F("acls/1/match-unix", "bool"), F("acls/1/apply-access/0", "access"),
  F("dns-routes", "list"), F("dns-routes/0", "map"), F("dns-routes/0/domain-suffixes", "list"), F("dns-routes/0/domain-suffixes/0", "domain"),
  F("dns-routes/0/type", "routetype"), F("dns-routes/0/dns-servers", "list"), F("dns-routes/0/dns-servers/0", "ip"),
  F("dns-routes/1/domain-suffixes/1", "domain"), F("dns-routes/1/type", "routetype"),
  F("router-advertisements", "map"), F("router-advertisements/eth0", "map"),
  F("router-advertisements/eth0/hop-limit", "int"), F("router-advertisements/eth0/managed", "bool"), F("router-advertisements/eth0/other", "bool"),
  F("router-advertisements/eth0/lifetime", "duration"), F("router-advertisements/eth0/reachable", "duration"), F("router-advertisements/eth0/retransmit", "duration"),
  F("router-advertisements/eth0/min-router-advertisement-interval", "duration"), F("router-advertisements/eth0/max-router-advertisement-interval", "duration"),
  F("router-advertisements/eth0/mtu", "int"),
  F("router-advertisements/eth0/dns-servers", "map"), F("router-advertisements/eth0/dns-servers/addresses", "list"),
  F("router-advertisements/eth0/dns-servers/addresses/0", "ip"), F("router-advertisements/eth0/dns-servers/lifetime", "duration"),
  F("router-advertisements/eth0/dns-search", "map"), F("router-advertisements/eth0/dns-search/domains", "list"),
  F("router-advertisements/eth0/dns-search/domains/0", "domain"), F("router-advertisements/eth0/dns-search/lifetime", "duration"),
  F("router-advertisements/eth0/captive-portal", "url"),
  F("router-advertisements/eth0/pref64", "map"), F("router-advertisements/eth0/pref64/prefix", "prefix6"), F("router-advertisements/eth0/pref64/lifetime", "duration"),
  F("router-advertisements/eth0/prefixes", "list"), F("router-advertisements/eth0/prefixes/0", "map"),
  F("router-advertisements/eth0/prefixes/0/prefix", "prefix6"), F("router-advertisements/eth0/prefixes/0/on-link", "bool"),
  F("router-advertisements/eth0/prefixes/0/autonomous", "bool"), F("router-advertisements/eth0/prefixes/0/valid", "duration"),
  F("router-advertisements/eth0/prefixes/0/preferred", "duration"),
  F("dhcp-policies", "list"), F("dhcp-policies/0", "map"), F("dhcp-policies/0/apply-ntp-servers", "iplist"),
  F("dhcp-policies/0/apply-default-lease", "duration"), F("dhcp-policies/0/apply-max-lease", "duration"),
  F("dhcp-policies/0/policies", "list"), F("dhcp-policies/0/policies/0", "map"),
  F("dhcp-policies/0/policies/0/match-subnet", "prefix4"),
  F("dhcp-policies/0/policies/0/apply-range", "map"), F("dhcp-policies/0/policies/0/apply-range/start", "ip4"), F("dhcp-policies/0/policies/0/apply-range/end", "ip4"),
  F("dhcp-policies/0/policies/0/apply-routes", "list"), F("dhcp-policies/0/policies/0/apply-routes/0", "map"),
  F("dhcp-policies/0/policies/0/apply-routes/0/prefix", "prefix4"), F("dhcp-policies/0/policies/0/apply-routes/0/next-hop", "ip4"),
  F("dhcp-policies/0/policies/0/apply-dns-servers", "iplist"), F("dhcp-policies/0/policies/0/apply-domain-name", "string"),
  F("dhcp-policies/0/policies/0/apply-mtu", "int"), F("dhcp-policies/0/policies/0/apply-forward", "bool"),
  F("dhcp-policies/0/policies/0/apply-time-offset", "duration"), F("dhcp-policies/0/policies/0/apply-default-ttl", "int"),
  F("dhcp-policies/0/policies/0/apply-netmask", "ip4"), F("dhcp-policies/0/policies/0/apply-captive-portal", "url"),
  F("dhcp-policies/0/policies/0/policies", "list"),
  F("dhcp-policies/0/policies/0/policies/0/match-hardware-address", "hwaddr"), F("dhcp-policies/0/policies/0/policies/0/apply-address", "ip4"),
  F("dhcp-policies/0/policies/0/policies/1/match-host-name", "string"), F("dhcp-policies/0/policies/0/policies/1/apply-address", "ip4"),
  F("dhcp-policies/0/policies/1/match-interface", "string"), F("dhcp-policies/0/policies/1/apply-subnet", "prefix4"),
  F("dhcp-policies/0/policies/2/match-class-id", "string"), F("dhcp-policies/0/policies/2/apply-subnet", "prefix4")
}

Generic == {"<delete>", "~", "0", "-1", "99999999999999999999", "1.5", "true", "\"\"", "\"garbage\"", "[]", "{}", "[{a: 1}]", "{a: b}", "[[1]]", "[~]",
            "[\"\"]", "{1: 2}", "\"\\u00e9\\u4e2d\"", "<str:300>", "<str:70000>", "[[], []]", "{? [1] : 2}",
            \* characters of 2, 3 and 4 octets, alone and next to the separators the string parsers split on
            "\"\\u00e9\"", "\"\\u4e2d\"", "\"\\ud83d\\ude00\"", "\"\\u00e9:00:5e:00:53:01\"", "\"\\u00e9/24\"", "\"192.0.2.0/\\u0662\\u0664\"", "\"\\u00e9.\\u00e9\"",
            "\"@\\u00e9\"", "\"1\\u00e9\"", "\"\\u00e9s\""}

P4(n) == "\"192.0.2.0/" \o ToString(n) \o "\""
P6(n) == "\"2001:db8::/" \o ToString(n) \o "\""
Z4(n) == "\"0.0.0.0/" \o ToString(n) \o "\""
Prefix4 == {P4(n) : n \in 0..255} \cup {Z4(n) : n \in 0..32} \cup
           {"\"192.0.2.0\"", "\"192.0.2.0/\"", "\"/24\"", "\"192.0.2.0/24/1\"", "\"192.0.2.0/-1\"", "\"192.0.2.0/256\"", "\"192.0.2.77/24\"", "\"255.255.255.255/32\"",
            "\"255.255.255.255/0\"", "\"2001:db8::/64\"", "\" 192.0.2.0/24 \"", "\"192.0.2.0/ 24\"", "\"192.0.2.0/+24\"", "\"$self4/24\""}
Prefix6 == {P6(n) : n \in 0..255} \cup
           {"\"::/0\"", "\"2001:db8::1/64\"", "\"192.0.2.0/24\"", "\"::ffff:192.0.2.0/120\"", "\"2001:db8::\"", "\"2001:db8::/\"", "\"ffff:ffff:ffff:ffff:ffff:ffff:ffff:ffff/128\"",
            "\"ffff:ffff:ffff:ffff:ffff:ffff:ffff:ffff/0\"", "\"64:ff9b::/95\"", "\"64:ff9b::/97\"", "\"64:ff9b::/32\"", "\"64:ff9b::/31\"", "\"$self6/64\""}
Duration == {"\"s\"", "\"m\"", "\"h\"", "\"d\"", "\"w\"", "\"1x\"", "\"-1s\"", "\"0\"", "\"0s\"", "\"1s\"", "\"1h30m\"", "\"4h20m5\"", "\"99999999999999999999\"",
             "\"18446744073709551615s\"", "\"18446744073709551616\"", "\"18446744073709551615\"", "\"213503982334602d\"", "\"30500568904944w\"", "\"307445734561825861m\"",
             "\"5124095576030432h\"", "\"4294967295s\"", "\"4294967296s\"", "\"65535s\"", "\"65536s\"", "\"1 h\"", "\"1_000s\"", "\"1ss\"", "\"hh\"", "\"1s1s\"",
             "\"9999999999w9999999999w\"", "4294967296", "9223372036854775807", "-9223372036854775808", "65535", "65536", "\"8190s\"", "\"65528s\"", "\"65529s\"",
             "\"\\u0661s\"", "\"1.5h\""}
Ip4 == {"\"$self4\"", "\"$self6\"", "\"0.0.0.0\"", "\"255.255.255.255\"", "\"256.0.0.1\"", "\"1.2.3\"", "\"::1\"", "\"1.2.3.4/24\"", "\"$self\"", "\" 1.2.3.4\"", "\"127.0.0.1\"",
        "\"192.0.2.0\"", "\"192.0.2.255\"", "\"192.0.2.1\"", "\"224.0.0.1\"", "\"192.0.3.0\"", "\"192.0.1.255\"", "\"10.0.0.0\""}
Ip == Ip4 \cup {"\"::\"", "\"2001:db8::1\"", "\"2001:db8:::1\"", "\"fe80::1%eth0\"", "\"::ffff:192.0.2.1\"", "\"[::1]\"", "\"::1:53\"", "\"127.0.10.1:53\""}
IntV == {"1", "63", "64", "255", "256", "1279", "1280", "1500", "65535", "65536", "2147483647", "2147483648", "4294967295", "4294967296", "9223372036854775807", "-9223372036854775808",
        "0x10", "0o17", "\"64\"", "1e3", "+1"}
BoolV == {"false", "true", "\"true\"", "yes", "no", "on", "1", "TRUE"}
HwAddr == {"\"0\"", "\"00\"", "\"00:\"", "\":\"", "\"::\"", "\"000:11\"", "\"zz:00\"", "\"00-11-22-33-44-55\"", "\"00:11:22:33:44:55:66:77:88:99:aa:bb:cc:dd:ee:ff:00\"",
           "\"\\u00e90\"", "\"02:00:00:00:00:01\"", "\"02:00:00:00:00\"", "\"2:0:0:0:0:1\"", "\"+1:00\""}
SockAddr == {"\"@\"", "\"@x\"", "\"/\"", "\"/tmp/x\"", "\"[::]:53\"", "\"[::]\"", "\":53\"", "\"0.0.0.0:65536\"", "\"0.0.0.0:0\"", "\"\\u00e9\"", "<path:107>", "<path:108>", "<path:200>",
             "<abstract:107>", "<abstract:108>", "\"127.0.0.1:5301\"", "\"localhost:53\"", "\"/tmp/a\\u0000b\"", "\"@a\\u0000b\""}
Domain == {"\".\"", "\"..\"", "\"a..b\"", "\".a\"", "\"a.\"", "<label:63>", "<label:64>", "<domain:253>", "<domain:254>", "<domain:255>", "<domain:300>", "\"EXAMPLE.com\"", "\"exa mple\"",
           "\"*.example\"", "\"\\u00e9.example\"", "\"a\\u0000b.example\"", "\"example.com\"", "\"com\""}
Url == {"<url:0>", "<url:240>", "<url:256>", "<url:300>", "<url:2032>", "<url:2040>", "<url:2048>", "<url:70000>", "\"http://x/\\u00e9\"", "\"not a url\""}
StringV == {"<str:254>", "<str:255>", "<str:256>", "<str:1000>", "\"a\\u0000b\"", "\"printer\""}
IpList == {"[\"$self4\"]", "[\"$self6\"]", "[\"::1\"]", "\"192.0.2.1\"", "<iplist:63>", "<iplist:64>", "<iplist:65>", "<iplist:1000>", "[\"192.0.2.1\", ~]", "[\"192.0.2.1\", \"192.0.2.1\"]"}
RouteType == {"\"forward\"", "\"forge-nxdomain\"", "\"FORWARD\"", "\"forge\"", "\"forge-nxdomain \""}
Access == {"\"dns-recursion\"", "\"dhcp-client\"", "\"http\"", "\"http-metrics\"", "\"http-leases\"", "\"http-ro\"", "\"HTTP\"", "\"http-rw\"", "\"*\""}
ListenStyle == {"\"bind-unspecified\"", "\"bind-addresses-interfaces\"", "\"bind-interfaces-addresses\"", "\"BIND-UNSPECIFIED\""}

ByType(t) == CASE t = "prefix4" -> Prefix4 \cup {P6(64), P6(0)}
               [] t = "prefix6" -> Prefix6 \cup {P4(24), P4(0)}
               [] t = "duration" -> Duration
               [] t = "ip4" -> Ip4
               [] t = "ip" -> Ip
               [] t = "int" -> IntV
               [] t = "bool" -> BoolV
               [] t = "hwaddr" -> HwAddr
               [] t = "sockaddr" -> SockAddr
               [] t = "domain" -> Domain
               [] t = "url" -> Url
               [] t = "string" -> StringV
               [] t = "iplist" -> IpList
               [] t = "routetype" -> RouteType
               [] t = "access" -> Access
               [] t = "listenstyle" -> ListenStyle
               [] t = "map" -> {"<addkey:unknown-key>", "<addkey:>", "<addkey:match->", "<addkey:apply->", "<addkey:match-unknown-option>", "<addkey:apply-unknown-option>", "<addkey:policies>"}
               [] t = "list" -> {"<dup>", "<dup:100>"}
               [] OTHER -> {}

Cases == {[path |-> f.path, type |-> f.type, lit |-> l] : f \in Fields, l \in Generic} \cup
         UNION {{[path |-> f.path, type |-> f.type, lit |-> l] : l \in ByType(f.type)} : f \in Fields}

VARIABLE c
Init == c \in Cases
Next == UNCHANGED c
Spec == Init /\ [][Next]_c
Emit == PrintT(<<"CASE", ToJson(c)>>)
=============================================================================
