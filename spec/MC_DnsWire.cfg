SPECIFICATION Spec
CONSTANTS
  Sizes = {1, 15, 100, 495}
  MaxRecs = 5
  Limits = {512, 513, 600}
  Splice = FALSE
INVARIANTS C04Design DictOK
CHECK_DEADLOCK FALSE
