------------------------------- MODULE ConfTrace -------------------------------
(***************************************************************************)
(* C19 follower.  Load(text) has two outcomes: "ok" (a configuration) or   *)
(* "err" with a non-empty message; the documented examples load; after     *)
(* "ok", serving DHCP / RA / ACL requests with that configuration has the  *)
(* single outcome "ok".  Panics, aborts and hangs are recorded as other    *)
(* outcome strings by the driver (the child process is the observation     *)
(* point) and violate the property.                                        *)
(*                                                                         *)
(*   load   id, gen, outcome, msglen                                       *)
(*   serve  id, gen, outcome, part                                         *)
(*   dns    id, gen, alive, panics       (service level: DNS with the       *)
(*                                        accepted configuration)          *)
(* IOEnv.PLAN lists the ids that had to be loaded (completeness).          *)
(***************************************************************************)
EXTENDS Integers, Sequences, FiniteSets, TLC, Json, IOUtils
Rec == ndJsonDeserialize(IOEnv.TRACE)
Plan == ndJsonDeserialize(IOEnv.PLAN)
N == Len(Rec)
VARIABLES l, viol, stats
vars == <<l, viol, stats>>

C19Load(e) == \/ e.outcome = "ok"
              \/ e.outcome = "err" /\ e.msglen > 0
C19Example(e) == e.gen.k = "example" => e.outcome = "ok"
C19Serve(e) == e.outcome = "ok"
C19Dns(e) == e.alive /\ e.panics = 0

Bump(s, k) == [s EXCEPT ![k] = @ + 1]
Init == l = 1 /\ viol = <<>> /\ stats = [loads |-> 0, accepted |-> 0, rejected |-> 0, served |-> 0, dns |-> 0, planned |-> Len(Plan)]
Next ==
    /\ l <= N
    /\ l' = l + 1
    /\ LET e == Rec[l] IN
       CASE e.ev = "load" ->
              /\ stats' = Bump(Bump(stats, "loads"), IF e.outcome = "ok" THEN "accepted" ELSE "rejected")
              /\ viol' = IF ~C19Load(e) THEN Append(viol, <<"C19", l, IF e.outcome = "err" THEN "load.errorWithoutMessage" ELSE "load." \o e.outcome>>)
                         ELSE IF ~C19Example(e) THEN Append(viol, <<"C19", l, "load.documentedExampleRejected">>)
                         ELSE viol
         [] e.ev = "serve" ->
              /\ stats' = Bump(stats, "served")
              /\ viol' = IF C19Serve(e) THEN viol ELSE Append(viol, <<"C19", l, "serve." \o e.part \o "." \o e.outcome>>)
         [] e.ev = "dns" ->
              /\ stats' = Bump(stats, "dns")
              /\ viol' = IF C19Dns(e) THEN viol ELSE Append(viol, <<"C19", l, IF e.alive THEN "serve.dns.handlerPanicked" ELSE "serve.dns.aborted">>)
         [] OTHER -> UNCHANGED <<viol, stats>>
Spec == Init /\ [][Next]_vars

Loaded == {Rec[i].id : i \in {j \in 1..N : Rec[j].ev \in {"load", "skipped"}}}
Missing == {i \in 1..Len(Plan) : Plan[i].id \notin Loaded}
Report == (l = N + 1) => PrintT(<<"REPORT", ToJson([viol |-> viol, stats |-> stats, missing |-> Cardinality(Missing)])>>)
Done == TLCGet("stats").diameter = N + 1
=============================================================================
