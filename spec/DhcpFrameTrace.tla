---------------------------- MODULE DhcpFrameTrace ----------------------------
(***************************************************************************)
(* C12 at service level: the frames the real DhcpService puts on the wire, *)
(* captured on the client end of the veth pair and taken apart by the       *)
(* harness's own Ethernet / IPv4 / UDP decoder (RFC 894, 791, 768).         *)
(*                                                                         *)
(*   wireframe  flags      flags field of the client's message (0..65535)   *)
(*              replied    was there a frame from port 67 to port 68?       *)
(*              ipdst, yiaddr, dstmac, chaddr   (octet sequences)           *)
(*              ipsum_ok, udpsum_ok  checksums recomputed by the harness    *)
(*              iplen, udplen, paylen, framelen                             *)
(*              payload_ok  the payload decodes (own walker, END reached)    *)
(*                          and echoes xid                                   *)
(***************************************************************************)
EXTENDS Integers, Sequences, FiniteSets, TLC, Json, IOUtils
Rec == ndJsonDeserialize(IOEnv.TRACE)
N == Len(Rec)
VARIABLES l, viol, stats
vars == <<l, viol, stats>>

Broadcast == <<255, 255, 255, 255>>
BcastBit(f) == f \div 32768 = 1
\* the IPv4 destination is the limited broadcast address exactly when the client set the broadcast bit,
\* otherwise the assigned address
C12Dest(e) == e.ipdst = (IF BcastBit(e.flags) THEN Broadcast ELSE e.yiaddr)
C12Sums(e) == e.ipsum_ok /\ e.udpsum_ok
\* (an Ethernet frame shorter than 60 octets may be padded; DHCP frames never are that short)
C12Lens(e) == /\ e.iplen = 20 + e.udplen /\ e.udplen = 8 + e.paylen
              /\ (IF e.iplen >= 46 THEN e.framelen = 14 + e.iplen ELSE e.framelen >= 14 + e.iplen)
C12Payload(e) == e.payload_ok
Shape(e) == IF ~C12Sums(e) THEN (IF ~e.ipsum_ok THEN "ipv4HeaderChecksumWrongOnTheWire" ELSE "udpChecksumWrongOnTheWire")
            ELSE IF ~C12Lens(e) THEN "frameLengthsInconsistentOnTheWire"
            ELSE IF ~C12Payload(e) THEN "payloadDamagedOnTheWire"
            ELSE IF BcastBit(e.flags) THEN "broadcastBitSetButReplyUnicast" ELSE "broadcastBitClearButReplyBroadcast"
Bump(s, k) == [s EXCEPT ![k] = @ + 1]
Init == l = 1 /\ viol = {} /\ stats = [frames |-> 0, bcast |-> 0, unicast |-> 0, noreply |-> 0]
Step == /\ l <= N /\ l' = l + 1
        /\ LET e == Rec[l] IN
           CASE e.ev = "wireframe" /\ e.replied ->
                  /\ viol' = IF C12Dest(e) /\ C12Sums(e) /\ C12Lens(e) /\ C12Payload(e) THEN viol ELSE viol \cup {<<"C12", l, Shape(e)>>}
                  /\ stats' = Bump(Bump(stats, "frames"), IF BcastBit(e.flags) THEN "bcast" ELSE "unicast")
             [] e.ev = "wireframe" -> stats' = Bump(stats, "noreply") /\ UNCHANGED viol
             [] OTHER -> UNCHANGED <<viol, stats>>
Spec == Init /\ [][Step]_vars
Report == l = N + 1 => PrintT(<<"REPORT", ToJson([viol |-> viol, stats |-> stats])>>)
Consumed == TLCGet("stats").diameter = N + 1
=============================================================================
