------------------------------- MODULE DnsRoute -------------------------------
(***************************************************************************)
(* DNS routing as erbium.conf(5) documents it (dns/router.rs):             *)
(* "This will match this domain, and all sub-domains ... The longest       *)
(* suffix match wins.  Use the empty string to use this as a default."     *)
(* Names are sequences of labels, labels sequences of octets; comparison   *)
(* is ASCII case-insensitive (RFC 4343).                                   *)
(* A route: [suffixes: sequence of names, kind: "forward"|"nxdomain",      *)
(*           up: upstream index].                                          *)
(***************************************************************************)
EXTENDS Integers, Sequences, FiniteSets

Fold(b) == IF b >= 65 /\ b <= 90 THEN b + 32 ELSE b
LabelEq(a, b) == Len(a) = Len(b) /\ \A i \in 1..Len(a) : Fold(a[i]) = Fold(b[i])
\* whole labels: s is a suffix of n
IsSuffix(s, n) == Len(s) <= Len(n) /\ \A i \in 1..Len(s) : LabelEq(s[i], n[Len(n) - Len(s) + i])
\* all <<route index, suffix index>> whose suffix the name ends with
Cands(routes, n) == {p \in UNION {{<<r, i>> : i \in 1..Len(routes[r].suffixes)} : r \in 1..Len(routes)} :
                        IsSuffix(routes[p[1]].suffixes[p[2]], n)}
BestLen(routes, n) == LET C == Cands(routes, n) IN
                      CHOOSE k \in {Len(routes[p[1]].suffixes[p[2]]) : p \in C} :
                         \A p \in C : Len(routes[p[1]].suffixes[p[2]]) <= k
\* the routes that own a longest matching suffix (more than one only if the same suffix is configured twice)
BestRoutes(routes, n) == LET C == Cands(routes, n) IN
                         IF C = {} THEN {} ELSE {p[1] : p \in {x \in C : Len(routes[x[1]].suffixes[x[2]]) = BestLen(routes, n)}}
\* the acceptable outcomes of a query
Outcomes(routes, n, rd) ==
    LET B == BestRoutes(routes, n) IN
    IF B = {} THEN {[kind |-> "servfail", up |-> 0]}
    ELSE {IF routes[r].kind = "nxdomain" THEN [kind |-> "nxdomain", up |-> 0]
          ELSE IF rd THEN [kind |-> "forward", up |-> routes[r].up] ELSE [kind |-> "refused", up |-> 0] : r \in B}
=============================================================================
