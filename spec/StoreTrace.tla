----------------------------- MODULE StoreTrace -----------------------------
(***************************************************************************)
(* Trace validation for C18 (leases survive restarts, upgrades, crashes).  *)
(* Events recorded by the harness driver `store`:                          *)
(*   fileopen  a database file in a given state (every state the DhcpStore *)
(*             model reaches by crashing, plus v0 files with arbitrary     *)
(*             rows) handed to the real Pool open: outcome + file after    *)
(*   cmp       one scenario run uninterrupted (a) and with close/reopen    *)
(*             at a split point (b): the two reply sequences               *)
(*   kill      a child opening + allocating on a file, SIGKILLed at random *)
(*             instants (1-3 rounds): acknowledged leases vs rows after    *)
(* The expected result of a crash-free open is the composition of the      *)
(* DhcpStore actions CreateSV ; ReadVersion ; (Probe ; Create | SetVer |   *)
(* Alter ; SetVer)* from the given file state (OpenResult below).          *)
(***************************************************************************)
EXTENDS Integers, FiniteSets, Sequences, TLC, Json, IOUtils

CONSTANT Enforce
Rec == ndJsonDeserialize(IOEnv.TRACE)
N == Len(Rec)
VARIABLES l, viol, drift, stats
vars == <<l, viol, drift, stats>>

SetOf(s) == {s[i] : i \in 1..Len(s)}

\* crash-free run of the open step machine (statement-by-statement code)
OpenResult(sv, shape) ==
    LET sv1 == IF sv = "none" THEN "empty" ELSE sv IN
    CASE sv1 = "v1" -> [res |-> "ok", sv |-> "v1", shape |-> shape]
      [] sv1 = "empty" /\ shape = "absent" -> [res |-> "ok", sv |-> "v1", shape |-> "v1"]
      [] sv1 \in {"empty", "v0"} /\ shape = "v0" -> [res |-> "ok", sv |-> "v1", shape |-> "v1"]
      [] sv1 \in {"empty", "v0"} /\ shape = "v1" -> [res |-> "err", sv |-> "v0", shape |-> "v1"]
      [] sv1 = "v0" /\ shape = "absent" -> [res |-> "err", sv |-> "v0", shape |-> "absent"]
      [] OTHER -> [res |-> "err", sv |-> sv1, shape |-> shape]     \* newer schema: refused

Newer(sv) == sv \notin {"none", "empty", "v0", "v1"}
KnownShape(f) == f.shape = "v1" /\ f.sv \in {"empty", "v0"}

FileOpen(e) ==
    LET f == e.file  g == e.after
        rowsKept == SetOf(f.rows) = SetOf(g.rows) /\ Len(f.rows) = Len(g.rows)
        b == ~Newer(f.sv) => (e.outcome = "ok" /\ e.again = "ok" /\ e.usable = "ok"      \* C18b: opens, and serves
                               /\ (g.sv = "v1" /\ g.shape = "v1"))                  \* (DhcpStore!VersionHonest on the real file)
        a == (f.shape # "absent") => rowsKept                               \* C18a
        d == Newer(f.sv) => (e.outcome = "err" /\ g = f)                    \* C18d
        shape == IF ~b THEN (IF KnownShape(f) THEN "openFailsAfterCrashBetweenMigrationAndVersionRow"
                             ELSE IF e.outcome = "panic" THEN "openPanics"
                             ELSE IF e.outcome = "ok" /\ e.again = "ok" THEN "openedStoreNotUsable" ELSE "openFails")
                 ELSE IF ~a THEN "rowsChangedByOpen" ELSE "newerSchemaNotRefusedUntouched"
        exp == OpenResult(f.sv, f.shape)
    IN /\ viol' = IF "C18" \in Enforce /\ ~(a /\ b /\ d) THEN viol \cup {<<"C18", l, shape>>} ELSE viol
       /\ drift' = IF exp.res # (IF e.outcome = "ok" THEN "ok" ELSE "err") \/ exp.sv # g.sv \/ exp.shape # g.shape
                   THEN drift \cup {l} ELSE drift
       /\ stats' = [stats EXCEPT !.files = @ + 1, !.withRows = @ + (IF Len(f.rows) > 0 THEN 1 ELSE 0),
                                 !.migrated = @ + (IF f.shape = "v0" /\ g.shape = "v1" THEN 1 ELSE 0),
                                 !.newer = @ + (IF Newer(f.sv) THEN 1 ELSE 0)]

Cmp(e) ==
    LET same == e.a = e.b /\ SetOf(e.dba) = SetOf(e.dbb)
        bad == ~e.reopened \/ (~e.skew /\ ~same)
    IN /\ viol' = IF "C18" \in Enforce /\ bad
                  THEN viol \cup {<<"C18", l, IF ~e.reopened THEN "reopenFailed" ELSE "repliesDifferAfterRestart">>}
                  ELSE viol
       /\ stats' = [stats EXCEPT !.cmps = @ + 1, !.skewed = @ + (IF e.skew THEN 1 ELSE 0)]
       /\ UNCHANGED drift

\* acked: <<address, client, E>> = "yours until E", printed after allocate_address returned
\* present: <<address, client, start, expiry>> rows of the child's clients after the kill and reopen
Kill(e) ==
    LET ack == SetOf(e.acked)  pres == SetOf(e.present)
        missing == {a \in ack : ~\E p \in pres : p[1] = a[1] /\ p[2] = a[2] /\ p[4] >= a[3] - 2}
        torn == e.partial \/ \E p \in pres : p[4] - p[3] # 1000      \* every lease is written with start + 1000 = expiry
        b == e.outcome = "ok"
        c == missing = {} /\ ~torn
        shape == IF ~b THEN (IF KnownShape(e.after) THEN "openFailsAfterCrashBetweenMigrationAndVersionRow" ELSE "openFailsAfterKill")
                 ELSE IF missing # {} THEN "acknowledgedLeaseLost" ELSE "partiallyWrittenLease"
        old == SetOf(e.before.rows) \subseteq SetOf(e.after.rows)
    IN /\ viol' = IF "C18" \in Enforce /\ ~(b /\ c /\ old)
                  THEN viol \cup {<<"C18", l, IF b /\ c THEN "oldRowsLostAcrossUpgrade" ELSE shape>>} ELSE viol
       /\ stats' = [stats EXCEPT !.kills = @ + Len(e.kills), !.acked = @ + Cardinality(ack),
                                 !.killedBeforeOpen = @ + Cardinality({i \in 1..Len(e.kills) : ~e.kills[i][2]})]
       /\ UNCHANGED drift

Init == l = 1 /\ viol = {} /\ drift = {} /\
        stats = [files |-> 0, withRows |-> 0, migrated |-> 0, newer |-> 0, cmps |-> 0, skewed |-> 0,
                 kills |-> 0, acked |-> 0, killedBeforeOpen |-> 0]
Step == /\ l <= N /\ l' = l + 1
        /\ LET e == Rec[l] IN
           CASE e.ev = "fileopen" -> FileOpen(e)
             [] e.ev = "cmp" -> Cmp(e)
             [] e.ev = "kill" -> Kill(e)
             [] OTHER -> UNCHANGED <<viol, drift, stats>>
Spec == Init /\ [][Step]_vars
Report == l = N + 1 => PrintT(<<"REPORT", ToJson([viol |-> viol, drift |-> drift, lines |-> N, stats |-> stats])>>)
Consumed == TLCGet("stats").diameter = N + 1
=============================================================================
