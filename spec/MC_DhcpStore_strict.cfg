SPECIFICATION Spec
CONSTANTS
  RowIds <- MCRowIds
  InitFiles <- MCInitFiles
  Atomic <- AtomicC
  AtomicC = FALSE
INVARIANTS TypeOK C18bStrict
CHECK_DEADLOCK FALSE
