SPECIFICATION Spec
CONSTANTS
  B = 4
  R = 1
  Costs = {1, 3}
  H = 2
  MaxT = 12
CONSTRAINT StateBound
INVARIANTS BoundStrict Quiet
CHECK_DEADLOCK FALSE
