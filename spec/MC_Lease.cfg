SPECIFICATION Spec
CONSTANTS
  Clients = {1, 2, 3}
  Addrs = {1, 2, 3}
  Pools = {{1, 2, 3}, {1, 2}, {3}, {2, 3}}
  MinL = 2
  MaxL = 4
  KnownC09 = FALSE
VIEW View
INVARIANT TypeOK
PROPERTIES P01 P09 P10 P13
CHECK_DEADLOCK FALSE
