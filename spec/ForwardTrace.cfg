SPECIFICATION Spec
CONSTANT Enforce = {"C03", "C04", "C07", "C08", "C15"}
INVARIANT Report
POSTCONDITION Consumed
CHECK_DEADLOCK FALSE
