--------------------------------- MODULE Radv ---------------------------------
(***************************************************************************)
(* Router advertisements (crates/erbium-core/src/radv/): what the          *)
(* configuration says an advertisement must decode to, per erbium.conf(5)  *)
(* and RFC 4861 / 8106 / 8781 / 8910.                                      *)
(*                                                                         *)
(* Tri-state fields are records [s |-> "absent" | "null" | "val", v |-> _]: *)
(* absent = use the top-level / built-in default, null = suppress.  Durations are seconds as <<hi, lo>>     *)
(* 16-bit halves (hi = 65536 encodes 2^32).  A value the wire field cannot *)
(* hold must be rejected at load or clamped to the field maximum.          *)
(***************************************************************************)
EXTENDS Integers, Sequences, FiniteSets

Absent(f) == f.s = "absent"
IsNull(f) == f.s = "null"
IsVal(f) == f.s = "val"
PLe(a, b) == a[1] < b[1] \/ (a[1] = b[1] /\ a[2] <= b[2])
Fits16(p) == p[1] = 0
Fits32(p) == p[1] <= 65535
Max32 == <<65535, 65535>>
\* seconds -> milliseconds, as a pair (exact while it fits 32 bits)
Ms(p) == LET x == p[2] * 1000 IN <<p[1] * 1000 + x \div 65536, x % 65536>>
MsFits(p) == p[1] <= 65 /\ Fits32(Ms(p))

RECURSIVE P2(_)
P2(n) == IF n = 0 THEN 1 ELSE 2 * P2(n - 1)
\* octets of a prefix with the bits beyond plen cleared
MaskOctets(a, plen) == [i \in 1..Len(a) |-> LET keep == IF plen >= 8 * i THEN 8 ELSE IF plen <= 8 * (i - 1) THEN 0 ELSE plen - 8 * (i - 1)
                                             IN (a[i] \div P2(8 - keep)) * P2(8 - keep)]
\* RFC 8781 section 4: prefix length code
Plc(len) == CASE len = 96 -> 0 [] len = 64 -> 1 [] len = 56 -> 2 [] len = 48 -> 3 [] len = 40 -> 4 [] len = 32 -> 5 [] OTHER -> -1

\* acceptable decoded values of a field of `bits` for a configured value p (exact if it fits, else the maximum)
Field16(p) == IF Fits16(p) THEN {p[2]} ELSE {65535}
Field32(p) == IF Fits32(p) THEN {p} ELSE {Max32}
FieldMs(p) == IF MsFits(p) THEN {Ms(p)} ELSE {Max32}
\* PREF64 scaled lifetime: 13 bits of 8-second units (a value not divisible by 8 may be rounded either way)
Scaled(p) == IF p[1] = 0 /\ p[2] <= 65528 THEN {p[2] \div 8, (p[2] + 7) \div 8} ELSE {8191}

\* addresses are records [k |-> "self6" | "self4" | "v6" | "v4", a |-> octets]
Sub6(list, self6) == [i \in 1..Len(list) |-> IF list[i].k = "self6" THEN self6 ELSE list[i].a]
OnlyV6(list) == SelectSeq(list, LAMBDA a : a.k \in {"self6", "v6"})

\* does some configured value exceed its wire field?  (then rejecting the configuration is acceptable)
OverWide(cfg) ==
    LET i == cfg.if IN
    \/ (IsVal(i.lifetime) /\ ~Fits16(i.lifetime.v))
    \/ (IsVal(i.reachable) /\ ~MsFits(i.reachable.v)) \/ (IsVal(i.retransmit) /\ ~MsFits(i.retransmit.v))
    \/ \E k \in 1..Len(i.prefixes) : (IsVal(i.prefixes[k].valid) /\ ~Fits32(i.prefixes[k].valid.v))
                                     \/ (IsVal(i.prefixes[k].preferred) /\ ~Fits32(i.prefixes[k].preferred.v))
    \/ (IsVal(i.dns) /\ IsVal(i.dns.lifetime) /\ ~Fits32(i.dns.lifetime.v))
    \/ (IsVal(i.search) /\ IsVal(i.search.lifetime) /\ ~Fits32(i.search.lifetime.v))
    \/ (IsVal(i.pref64) /\ (Plc(i.pref64.len) = -1 \/ (IsVal(i.pref64.lifetime) /\ ~(i.pref64.lifetime.v[1] = 0 /\ i.pref64.lifetime.v[2] <= 65528))))
=============================================================================
