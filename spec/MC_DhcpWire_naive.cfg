SPECIFICATION Spec
CONSTANTS
  Lens = {0, 1, 255, 256, 1500}
  Codes = {12, 61}
  MaxOpts = 2
INVARIANTS NaiveOK
CHECK_DEADLOCK FALSE
