SPECIFICATION Spec
CONSTANTS
  Conds1 = {"none", "sub1"}
  Conds2 = {"mac1", "nohost"}
  Addrs1 = {"subnet29", "range"}
  Addrs2 = {"none", "single"}
  Opts1 = {"dns1"}
  Opts2 = {"none", "dnsnull"}
  Ips = {65537, 65636}
  Macs = {1, 2}
  Hosts = {0, 1}
  Plists = {{1, 6, 28}}
  TopAddrs = {"none", "n1_24h"}
INVARIANTS C02Model C11Model Emit
CHECK_DEADLOCK FALSE
