SPECIFICATION Spec
INVARIANTS PermInvariant CaseInvariant Total NoRoute
CHECK_DEADLOCK FALSE
