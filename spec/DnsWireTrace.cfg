SPECIFICATION Spec
CONSTANT Enforce = {"C04", "C14"}
INVARIANT Report
POSTCONDITION Consumed
CHECK_DEADLOCK FALSE
