SPECIFICATION Spec
INVARIANT DurLemma
INVARIANT MaskLemma
INVARIANT PlcLemma
CHECK_DEADLOCK FALSE
