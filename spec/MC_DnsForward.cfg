SPECIFICATION Spec
CONSTANTS
  Queries = {1, 2, 3}
  Ids = {1, 2}
  MaxTx = 3
  Faults = 3
  TcpClients = {3}
  AllowCollision = FALSE
  Remap = TRUE
INVARIANTS AtMostOne Own Served MaxTransmissions
CHECK_DEADLOCK FALSE
