------------------------------ MODULE DhcpPolicy ------------------------------
(***************************************************************************)
(* DHCP policy semantics as erbium.conf(5) documents them -- an            *)
(* independent, executable transcription used as the oracle for C02        *)
(* (which addresses a client may get) and C11 (which options it gets).     *)
(*                                                                         *)
(* A policy node (JSON from the harness, one per YAML policy):             *)
(*   sub   <<a, plen>> match-subnet, <<>> = no such condition              *)
(*   mac   match-hardware-address (client index), 0 = none                 *)
(*   host  match-host-name: 0 none, -1 null (client must NOT send it),     *)
(*         k > 0 the value with index k                                    *)
(*   a     address items <<"range", lo, hi>> | <<"subnet", a, plen>> |     *)
(*         <<"single", x, x>>; <<>> = the policy defines no addresses      *)
(*   o     options <<code, value>>; value <<"v", k>> or <<"null">>             *)
(*   k     sub-policies                                                    *)
(* IPv4 addresses are integers (offset from 10.0.0.0).                     *)
(* A request: ip (address of the receiving interface), mac, host (0 =      *)
(* option absent), pl (parameter request list, set of codes), mtu, rtr.    *)
(***************************************************************************)
EXTENDS Integers, Sequences, FiniteSets

RECURSIVE Pow2(_)
Pow2(n) == IF n <= 0 THEN 1 ELSE 2 * Pow2(n - 1)
NetOf(a, plen) == a - (a % Pow2(32 - plen))
LastOf(a, plen) == NetOf(a, plen) + Pow2(32 - plen) - 1          \* broadcast address
IsHost(x, a, plen) == NetOf(a, plen) < x /\ x < LastOf(a, plen)  \* every address but network and broadcast
InSubnet(x, a, plen) == NetOf(a, plen) <= x /\ x <= LastOf(a, plen)

(* ------------------------------ matching ------------------------------- *)
HasCond(p) == p.sub # <<>> \/ p.mac # 0 \/ p.host # 0
Cond(p, r) == /\ (p.sub # <<>> => InSubnet(r.ip, p.sub[1], p.sub[2]))
              /\ (p.mac # 0 => r.mac = p.mac)
              /\ (p.host # 0 => IF p.host = -1 THEN r.host = 0 ELSE r.host = p.host)
\* "A policy section that contains no matches only matches if one of its subpolicies matches."
RECURSIVE Applies(_, _)
Applies(p, r) == IF HasCond(p) THEN Cond(p, r)
                 ELSE \E i \in 1..Len(p.k) : Applies(p.k[i], r)
\* "Each policy is considered in turn, with the first policy that successfully matches being applied."
FirstApplicable(list, r) ==
    IF \E i \in 1..Len(list) : Applies(list[i], r)
    THEN CHOOSE i \in 1..Len(list) : Applies(list[i], r) /\ \A j \in 1..(i - 1) : ~Applies(list[j], r)
    ELSE 0

(* ------------------------------ addresses ------------------------------ *)
InItem(it, x) == CASE it[1] = "range"  -> it[2] <= x /\ x <= it[3]
                   [] it[1] = "subnet" -> IsHost(x, it[2], it[3])
                   [] it[1] = "single" -> x = it[2]
InRaw(p, x) == \E i \in 1..Len(p.a) : InItem(p.a[i], x)
\* "If you add an IP address to a policy then it will be excluded from all parent pools."
RECURSIVE InUsed(_, _)
InUsed(p, x) == InRaw(p, x) \/ \E i \in 1..Len(p.k) : InUsed(p.k[i], x)
InOwn(p, x) == InRaw(p, x) /\ ~\E i \in 1..Len(p.k) : InUsed(p.k[i], x)

\* the applied path: the innermost applied policy that defines addresses wins;
\* "A policy that does not specify any new addresses will continue to use the addresses of its parent pool."
NoPool == [none |-> TRUE]
RECURSIVE PoolFrom(_, _, _)
PoolFrom(list, r, cur) ==
    LET i == FirstApplicable(list, r) IN
    IF i = 0 THEN cur
    ELSE LET p == list[i] IN PoolFrom(p.k, r, IF p.a # <<>> THEN p ELSE cur)

\* top-level `addresses`: "give out addresses on this interface except for the network address,
\* broadcast address, and the local interface IPv4 address ... also exclude any address given in a
\* normal policy" -- an implicit policy { match-subnet: prefix, apply-subnet: prefix } per IPv4 prefix
DefaultNode(pfx) == [sub |-> <<pfx[1], pfx[2]>>, mac |-> 0, host |-> 0, a |-> <<<<"subnet", pfx[1], pfx[2]>>>>,
                     o |-> <<>>, k |-> <<>>, dflt |-> TRUE]
DefaultList(cfg) == [i \in 1..Len(cfg.addresses) |-> DefaultNode(cfg.addresses[i])]

Winner(cfg, r) == PoolFrom(cfg.pol, r, PoolFrom(DefaultList(cfg), r, NoPool))
IsDefault(p) == "dflt" \in DOMAIN p

\* x may be leased to the client of request r
Member(cfg, r, x) ==
    LET w == Winner(cfg, r) IN
    /\ w # NoPool
    /\ InOwn(w, x)
    /\ (IsDefault(w) => ~\E i \in 1..Len(cfg.pol) : InUsed(cfg.pol[i], x))
    /\ x # r.ip                              \* never the server's own address on the receiving interface

\* every address any item of the configuration mentions (finite; for small pools)
ItemSet(it) == CASE it[1] = "range" -> it[2]..it[3]
                 [] it[1] = "subnet" -> NetOf(it[2], it[3])..LastOf(it[2], it[3])
                 [] it[1] = "single" -> {it[2]}
RECURSIVE Mentioned(_)
Mentioned(p) == UNION {ItemSet(p.a[i]) : i \in 1..Len(p.a)} \cup UNION {Mentioned(p.k[i]) : i \in 1..Len(p.k)}
Universe(cfg) == UNION {Mentioned(cfg.pol[i]) : i \in 1..Len(cfg.pol)}
                 \cup UNION {NetOf(cfg.addresses[i][1], cfg.addresses[i][2])..LastOf(cfg.addresses[i][1], cfg.addresses[i][2])
                             : i \in 1..Len(cfg.addresses)}
Allowed(cfg, r) == {x \in Universe(cfg) : Member(cfg, r, x)}

(* ------------------------------- options ------------------------------- *)
(* Option tables: code -> value; <<"null">> = "do not send"; codes absent   *)
(* from the domain are unset.  Only options in the parameter request list  *)
(* are ever applied.  Outer policies first, sub-policies override.         *)
Set(t, c, v) == [x \in (DOMAIN t) \cup {c} |-> IF x = c THEN v ELSE t[x]]
RECURSIVE SetAll(_, _, _, _)
SetAll(t, o, pl, i) == IF i > Len(o) THEN t
                       ELSE SetAll(IF o[i][1] \in pl THEN Set(t, o[i][1], o[i][2]) ELSE t, o, pl, i + 1)
NETMASK == 1
BROADCAST == 28
\* symbolic values for the computed defaults: <<"mask", plen>>, <<"bcast", address>> are recognised by the
\* harness as value ids; here they are the tuples themselves
SubnetDefaults(t, p, pl) ==
    IF p.sub = <<>> THEN t
    ELSE LET t1 == IF NETMASK \in pl /\ NETMASK \notin DOMAIN t THEN Set(t, NETMASK, <<"mask", p.sub[2]>>) ELSE t
         IN IF BROADCAST \in pl /\ BROADCAST \notin DOMAIN t1
            THEN Set(t1, BROADCAST, <<"bcast", LastOf(p.sub[1], p.sub[2])>>) ELSE t1
RECURSIVE OptsFrom(_, _, _)
OptsFrom(list, r, t) ==
    LET i == FirstApplicable(list, r) IN
    IF i = 0 THEN t
    ELSE LET p == list[i]
             t1 == SetAll(t, p.o, r.pl, 1)
             t2 == OptsFrom(p.k, r, t1)
         IN SubnetDefaults(t2, p, r.pl)

DNS == 6
SEARCH == 119
PORTAL == 114
MTU == 26
ROUTERS == 3
\* top-level defaults: an implicit outermost policy
TopOpts(cfg, r) ==
    LET t0 == <<>>
        t1 == IF DNS \in r.pl THEN Set(t0, DNS, cfg.top.dns) ELSE t0
        t2 == IF SEARCH \in r.pl THEN Set(t1, SEARCH, cfg.top.search) ELSE t1
        t3 == IF PORTAL \in r.pl THEN Set(t2, PORTAL, cfg.top.portal) ELSE t2
    IN t3
DefaultOptNode(pfx, r) ==
    [sub |-> <<pfx[1], pfx[2]>>, mac |-> 0, host |-> 0, a |-> <<>>, k |-> <<>>,
     o |-> IF InSubnet(r.ip, pfx[1], pfx[2])
           THEN (IF r.mtu # 0 THEN <<<<MTU, <<"mtu", r.mtu>>>>>> ELSE <<>>) \o
                (IF r.rtr # 0 THEN <<<<ROUTERS, <<"rtr", r.rtr>>>>>> ELSE <<>>)
           ELSE <<>>]
ModelOpts(cfg, r) ==
    LET base == OptsFrom([i \in 1..Len(cfg.addresses) |-> DefaultOptNode(cfg.addresses[i], r)], r, TopOpts(cfg, r))
        t == OptsFrom(cfg.pol, r, base)
    IN {<<c, t[c]>> : c \in {x \in DOMAIN t : t[x] # <<"null">>}}
=============================================================================
