---------------------------- MODULE DnsWireTrace ----------------------------
(***************************************************************************)
(* Trace validation for C14 (decode/encode identity, compression pointers) *)
(* and the function-level part of C04 (serialise_with_size).               *)
(*  dns_rt     a structured message m built by the harness; the bytes of   *)
(*             DNSPkt::serialise walked by the independent walker; the     *)
(*             crate's own decoder on the same bytes                       *)
(*  dns_image  a byte string the decoder accepts: decode(encode(decode b)) *)
(*  dns_emit   serialise_with_size(limit) on messages whose cumulative     *)
(*             sizes straddle the limit                                    *)
(***************************************************************************)
EXTENDS DnsWire, TLC, Json, IOUtils
CONSTANT Enforce
Rec == ndJsonDeserialize(IOEnv.TRACE)
N == Len(Rec)
VARIABLES l, viol, drift, stats
vars == <<l, viol, drift, stats>>
SetOf(s) == {s[i] : i \in 1..Len(s)}

Rt(e) ==
    LET m == e.m  w == e.walk  c == e.crate
        okSer == e.ser = "ok"
        same == w.ok /\ w.id = m.id /\ w.flags = m.flags /\ w.counts = m.counts /\ w.q = m.q /\ w.secs = m.secs
        starts == SetOf(w.writes)
        ptrOK == /\ w.ptr_summary.not_backward = 0 /\ w.ptr_summary.beyond_16k = 0 /\ w.ptr_summary.not_label_start = 0
                 /\ (w.ptr_summary.all_logged => \A i \in 1..Len(w.ptrs) : PointerOK(w.ptrs[i], starts))
        okCrate == c.outcome = "ok" /\ c.eq
        shape == IF ~okSer THEN (IF e.src = "boundary16k" THEN "encoderPanicsWhenSuffixFirstWrittenBeyond16K" ELSE "encoderPanics")
                 ELSE IF ~w.ok THEN "encodedMessageMalformed"
                 ELSE IF ~ptrOK THEN "badCompressionPointer"
                 ELSE IF ~same THEN "encodedMessageDiffersFromOriginal" ELSE "decodeOfEncodeDiffers"
    IN /\ viol' = IF okSer /\ same /\ ptrOK /\ okCrate THEN viol ELSE viol \cup {<<"C14", l, shape>>}
       /\ stats' = [stats EXCEPT !.rt = @ + 1, !.ptrs = @ + (IF okSer THEN w.nptrs ELSE 0),
                                 !.big = @ + (IF m.nrec > 64 THEN 1 ELSE 0),
                                 !.boundary = @ + (IF e.src = "boundary16k" THEN 1 ELSE 0)]
       /\ UNCHANGED drift

Image(e) ==
    LET ok == e.ser = "ok" /\ e.decode2 = "ok" /\ e.eq /\ e.walk_same_an_ns
              /\ e.ptr_summary.not_backward = 0 /\ e.ptr_summary.beyond_16k = 0
        shape == IF e.ser # "ok" THEN "encoderPanicsOnDecodedMessage"
                 ELSE IF e.decode2 # "ok" THEN "reencodedMessageNotDecodable"
                 ELSE IF ~e.eq \/ ~e.walk_same_an_ns THEN "decodeOfEncodeDiffers" ELSE "badCompressionPointer"
    IN /\ viol' = IF ok THEN viol ELSE viol \cup {<<"C14", l, shape>>}
       /\ stats' = [stats EXCEPT !.image = @ + 1]
       /\ UNCHANGED drift

Emit(e) ==
    LET o == e.out  all == e.all  limit == e.limit
        okRun == o.outcome = "ok" /\ e.full.ok
        wf == WellFormed(o)
        ok == okRun /\ wf /\ Within(o, limit) /\ IsPrefix(o, all) /\ TcRight(o, all)
                    /\ CountsRight(o, e.sec_full) /\ Complete(o, all, e.full.len, limit)
                    /\ o.len = PrefixLen(e.cum, e.full.qend, Len(o.recs))
        truncated == e.full.len > limit
        shape == IF ~okRun THEN "encoderPanics"
                 ELSE IF truncated /\ ~wf THEN "truncatedMessageMalformed"
                 ELSE IF ~wf THEN "messageMalformed"
                 ELSE IF ~Within(o, limit) THEN "limitExceeded"
                 ELSE IF ~TcRight(o, all) THEN "tcFlagWrong"
                 ELSE IF ~Complete(o, all, e.full.len, limit) THEN "truncatedThoughItFits"
                 ELSE "recordsNotAPrefixOrCountsWrong"
    IN /\ viol' = IF ok THEN viol ELSE viol \cup {<<"C04", l, shape>>}
       /\ drift' = IF okRun /\ wf /\ Len(o.recs) # MaxPrefix(e.cum, e.full.qend, limit) THEN drift \cup {l} ELSE drift
       /\ stats' = [stats EXCEPT !.emit = @ + 1, !.truncated = @ + (IF truncated THEN 1 ELSE 0),
                                 !.exact = @ + (IF e.full.len \in {limit - 1, limit, limit + 1} THEN 1 ELSE 0)]

Init == l = 1 /\ viol = {} /\ drift = {} /\
        stats = [rt |-> 0, ptrs |-> 0, big |-> 0, boundary |-> 0, image |-> 0, emit |-> 0, truncated |-> 0, exact |-> 0]
Step == /\ l <= N /\ l' = l + 1
        /\ LET e == Rec[l] IN
           CASE e.ev = "dns_rt" -> Rt(e)
             [] e.ev = "dns_image" -> Image(e)
             [] e.ev = "dns_emit" -> Emit(e)
             [] OTHER -> UNCHANGED <<viol, drift, stats>>
Spec == Init /\ [][Step]_vars
Report == l = N + 1 => PrintT(<<"REPORT", ToJson([viol |-> {v \in viol : v[1] \in Enforce}, drift |-> drift, lines |-> N, stats |-> stats])>>)
Consumed == TLCGet("stats").diameter = N + 1
=============================================================================
