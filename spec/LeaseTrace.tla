----------------------------- MODULE LeaseTrace -----------------------------
(***************************************************************************)
(* Trace validation for the DHCP lease store.  A deterministic follower:   *)
(* for every line recorded from the real code (harness drivers dhcp-pool   *)
(* and dhcp-pkt) it adopts the logged lease table as the post-state,       *)
(* evaluates the step predicates of Lease.tla on (pre, event, post), and   *)
(* collects                                                                *)
(*   viol  = {<<property, line, shape>>}  predicates that were false       *)
(*   drift = lines whose result is outside the result set of the           *)
(*           implementation-shaped Select (information only)               *)
(* One successor per state; the whole trace is always consumed.            *)
(***************************************************************************)
EXTENDS Lease, TLC, Json, IOUtils

CONSTANT Enforce            \* which properties this run reports

Rec == ndJsonDeserialize(IOEnv.TRACE)
N == Len(Rec)

VARIABLES l, db, told, viol, drift, stats
vars == <<l, db, told, viol, drift, stats>>

SetOf(s) == {s[i] : i \in 1..Len(s)}

\* rows are logged as [addr, client, start, expiry] in model time (absolute)
Table(rows, U) ==
    [x \in U |-> IF \E i \in 1..Len(rows) : rows[i][1] = x
                 THEN LET i == CHOOSE i \in 1..Len(rows) : rows[i][1] = x
                      IN [c |-> rows[i][2], s |-> rows[i][3], e |-> rows[i][4]]
                 ELSE NoRow]
Shift(d, t) == [x \in DOMAIN d |-> IF d[x].c = 0 THEN NoRow
                                   ELSE [c |-> d[x].c, s |-> d[x].s - t, e |-> d[x].e - t]]
NRows(d) == Cardinality({x \in DOMAIN d : d[x].c # 0})
Dups(rows) == \E i, j \in 1..Len(rows) : i < j /\ rows[i][1] = rows[j][1]

EvOf(e) == [kind |-> e.kind, c |-> e.c, req |-> e.req, P |-> SetOf(e.P), res |-> e.res,
            y |-> e.y, L |-> e.L, minl |-> e.minl, maxl |-> e.maxl, dt |-> e.t1 - e.t0,
            mtype |-> e.mtype, sidp |-> e.sidp, sidin |-> e.sidin, echo |-> e.echo,
            rsid |-> e.rsid]

Init == l = 1 /\ db = <<>> /\ told = <<>> /\ viol = {} /\ drift = {} /\
        stats = [msgs |-> 0, ok |-> 0, noaddr |-> 0, takeover |-> 0, held |-> 0, held2 |-> 0,
                 reqheld |-> 0, boundary |-> 0, reopen |-> 0, clampLo |-> 0, clampHi |-> 0,
                 ignored |-> 0, metrics |-> 0, lists |-> 0, emptyMetrics |-> 0, boundaryRows |-> 0]

Bump(s, f, b) == IF b THEN [s EXCEPT ![f] = @ + 1] ELSE s

MsgStep(e) ==
    LET a    == EvOf(e)
        pre  == Shift(db, e.t0)
        preT == WithTold(pre, told)      \* client column = who was last told the address
        pabs == Table(e.db, DOMAIN db)
        post == Shift(pabs, e.t0)
        bad  == [C01 |-> ~C01Step(preT, a, post), C09 |-> ~C09Step(preT, a, post),
                 C10 |-> ~C10Step(pre, a, post), C13 |-> ~C13Step(pre, a, post)]
        shp  == [C01 |-> C01Shape(preT, a, post), C09 |-> C09Shape(preT, a, post),
                 C10 |-> C10Shape(pre, a, post), C13 |-> C13Shape(pre, a, post)]
        \* implementation-shaped expectation, for every instant the call may have read the clock at
        exp  == UNION {{IF r = NoAddr THEN <<0, -1>> ELSE <<r.y, Clamp(r.L, a.minl, a.maxl)>> :
                          r \in Select(Shift(db, t), a.c, a.req, a.P, {})} : t \in e.t0..e.t1}
        drifts == a.kind \in {"discover", "request"} /\
                  \/ (a.res = "ok" /\ a.L # -1 /\ <<a.y, a.L>> \notin exp)
                  \/ (a.res = "ok" /\ a.L = -1 /\ a.y \notin {p[1] : p \in exp})
                  \/ (a.res \in {"noaddr", "nopool"} /\ <<0, -1>> \notin exp)
        hc == HeldC(pre, a)
        \* C18e: what was acknowledged is what is stored -- after an ACK (or a grant at pool level) the row of the
        \* address names the client it was acknowledged to and has not run out yet; this row is what a restart finds
        acked == a.res = "ok" /\ a.y \in DOMAIN post /\ (e.lvl = "pool" \/ a.kind = "request")
        lost == acked /\ ~(Has(post[a.y]) /\ post[a.y].c = a.c /\ post[a.y].e >= 0)
    IN /\ db' = pabs
       /\ told' = IF a.res = "ok" /\ a.y \in DOMAIN told THEN [told EXCEPT ![a.y] = a.c] ELSE told
       /\ viol' = viol \cup {<<p, l, shp[p]>> : p \in {q \in Enforce \cap DOMAIN bad : bad[q]}}
                       \cup (IF lost /\ "C18" \in Enforce THEN {<<"C18", l, "acknowledgedLeaseNotInStore">>} ELSE {})
       /\ drift' = IF drifts THEN drift \cup {l} ELSE drift
       /\ stats' = Bump(Bump(Bump(Bump(Bump(Bump(Bump(Bump(Bump(Bump(stats,
                     "msgs", TRUE), "ok", a.res = "ok"), "noaddr", a.res = "noaddr"),
                     "takeover", a.res = "ok" /\ Row(pre, a.y).c \notin {0, a.c}),
                     "held", hc # {}), "held2", Cardinality(hc) >= 2), "reqheld", a.req \in hc),
                     "boundary", \E x \in DOMAIN pre : Has(pre[x]) /\ pre[x].e \in {-1, 0, 1}),
                     "ignored", a.res = "ignored"),
                     "clampLo", a.res = "ok" /\ a.L = a.minl)

\* C18a: closing and reopening the store preserves every row exactly
ReopenStep(e) ==
    LET pabs == Table(e.db, DOMAIN db)
        bad == e.outcome # "ok" \/ pabs # db \/ Len(e.db) # NRows(db)
    IN /\ db' = IF e.outcome = "ok" THEN pabs ELSE db
       /\ viol' = IF bad /\ "C18" \in Enforce
                  THEN viol \cup {<<"C18", l, IF e.outcome # "ok" THEN "reopenFailed" ELSE "rowsChangedByReopen">>}
                  ELSE viol
       /\ stats' = Bump(stats, "reopen", TRUE)
       /\ UNCHANGED <<drift, told>>

\* C20 (function level): gauges and listing against the table
MetricsStep(e) ==
    LET okAt(t) == /\ e.active = Cardinality({x \in DOMAIN db : Has(db[x]) /\ db[x].e > t})
                   /\ e.expired = Cardinality({x \in DOMAIN db : Has(db[x]) /\ db[x].e <= t})
        bad == e.outcome # "ok" \/ ~(\E t \in e.t0..e.t1 : okAt(t))
        shape == IF e.outcome # "ok" THEN (IF NRows(db) = 0 THEN "gaugesFailOnEmptyStore" ELSE "gaugesFail")
                 ELSE IF \E t \in e.t0..e.t1 :
                           /\ e.expired = Cardinality({x \in DOMAIN db : Has(db[x]) /\ db[x].e >= t})
                           /\ e.active = Cardinality({x \in DOMAIN db : Has(db[x]) /\ db[x].e < t})
                      THEN "gaugesSwapped" ELSE "gaugesWrong"
    IN /\ viol' = IF bad /\ "C20" \in Enforce THEN viol \cup {<<"C20", l, shape>>} ELSE viol
       /\ stats' = Bump(Bump(Bump(stats, "metrics", TRUE), "emptyMetrics", NRows(db) = 0),
                        "boundaryRows", \E x \in DOMAIN db : Has(db[x]) /\ db[x].e \in e.t0..e.t1)
       /\ UNCHANGED <<db, drift, told>>

ListStep(e) ==
    LET bad == e.outcome # "ok" \/ Dups(e.entries) \/ Len(e.entries) # NRows(db)
               \/ Table(e.entries, DOMAIN db) # db
    IN /\ viol' = IF bad /\ "C20" \in Enforce THEN viol \cup {<<"C20", l, "listingDiffersFromStore">>} ELSE viol
       /\ stats' = Bump(stats, "lists", TRUE)
       /\ UNCHANGED <<db, drift, told>>

Step ==
    /\ l <= N
    /\ l' = l + 1
    /\ LET e == Rec[l] IN
       CASE e.ev = "reset"   -> /\ db' = Table(e.db, SetOf(e.U))
                                /\ told' = [x \in SetOf(e.U) |-> 0]
                                /\ UNCHANGED <<viol, drift, stats>>
         [] e.ev = "tick"    -> UNCHANGED <<db, told, viol, drift, stats>>
         [] e.ev = "msg"     -> MsgStep(e)
         [] e.ev = "reopen"  -> ReopenStep(e)
         [] e.ev = "metrics" -> MetricsStep(e)
         [] e.ev = "list"    -> ListStep(e)
         [] OTHER            -> UNCHANGED <<db, told, viol, drift, stats>>

Spec == Init /\ [][Step]_vars

Report == l = N + 1 =>
    PrintT(<<"REPORT", ToJson([viol |-> viol, drift |-> drift, lines |-> N, stats |-> stats])>>)

Consumed == TLCGet("stats").diameter = N + 1
=============================================================================
