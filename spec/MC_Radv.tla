------------------------------- MODULE MC_Radv -------------------------------
(***************************************************************************)
(* Lemmas of the Radv model that the trace follower relies on, checked by  *)
(* TLC over the boundary values the generators use.  If one of these       *)
(* failed, the follower would demand something a wire field cannot carry   *)
(* (a false alarm) or accept a field that is not what was configured.      *)
(***************************************************************************)
EXTENDS Radv, TLC
Halves == {0, 1, 8, 65, 66, 600, 601, 1000, 65527, 65528, 65529, 65535}
Durations == (Halves \X Halves) \cup {<<65536, 0>>}
Octets == {0, 1, 127, 128, 254, 255}
PLens == 0..128
VARIABLE c
Init == c \in [k : {"dur"}, d : Durations] \cup [k : {"mask"}, a : Octets, b : Octets, len : 0..16] \cup [k : {"plc"}, len : PLens]
Next == UNCHANGED c
Spec == Init /\ [][Next]_c

\* every acceptable decoded value is representable in its field, and exact when the configured value fits
DurLemma == c.k = "dur" =>
    LET p == c.d IN
    /\ \A v \in Field16(p) : v \in 0..65535 /\ (Fits16(p) => v = p[2])
    /\ \A v \in Field32(p) : Fits32(v) /\ (Fits32(p) => v = p)
    /\ \A v \in FieldMs(p) : Fits32(v) /\ v[2] \in 0..65535
    /\ ((MsFits(p) /\ p[1] <= 30) => (Ms(p)[1] * 65536 + Ms(p)[2]) = 1000 * (p[1] * 65536 + p[2]))
    /\ \A v \in Scaled(p) : v \in 0..8191 /\ ((p[1] = 0 /\ p[2] <= 65528) => (v * 8 >= p[2] - 7 /\ v * 8 <= p[2] + 7))
    /\ Field16(p) # {} /\ Field32(p) # {} /\ FieldMs(p) # {} /\ Scaled(p) # {}
\* clamping is monotone: a larger configured value never decodes to a smaller field
MaskLemma == c.k = "mask" =>
    LET a == <<c.a, c.b>>  m == MaskOctets(a, c.len) IN
    /\ MaskOctets(m, c.len) = m
    /\ \A i \in 1..2 : m[i] <= a[i] /\ m[i] \in 0..255
    /\ (c.len = 16 => m = a) /\ (c.len = 0 => m = <<0, 0>>)
    /\ (c.len >= 8 => m[1] = a[1])
\* RFC 8781: exactly six legal lengths, distinct codes 0..5
PlcLemma == c.k = "plc" =>
    /\ (Plc(c.len) # -1) <=> c.len \in {32, 40, 48, 56, 64, 96}
    /\ Plc(c.len) \in -1..5
    /\ \A l2 \in PLens : (Plc(l2) = Plc(c.len) /\ Plc(l2) # -1) => l2 = c.len
=============================================================================
