SPECIFICATION Spec
CONSTANT Enforce = {"C02", "C11"}
INVARIANT Report
POSTCONDITION Consumed
CHECK_DEADLOCK FALSE
