--------------------------------- MODULE Acl ---------------------------------
(***************************************************************************)
(* ACL semantics of erbium.conf(5) (crates/erbium-core/src/acl.rs,         *)
(* config.rs Prefix4/Prefix6, dns/acl.rs, http.rs): an independent         *)
(* transcription used as the oracle for C08.                               *)
(*                                                                         *)
(* Addresses are sequences of octets (4 or 16).  A prefix <<fam, net, len>>*)
(* denotes the set of addresses whose first len bits equal those of net    *)
(* -- host bits of the written prefix are irrelevant.  An IPv4 client is   *)
(* also the IPv4-mapped IPv6 address ::ffff:a.b.c.d, and a mapped IPv6     *)
(* client is also its IPv4 address.                                        *)
(* A rule: [any: TRUE iff match-subnets is not specified, subnets: sequence *)
(*          of prefixes, unix: -1|0|1, perms: set of operations].          *)
(* A client: [fam: "v4"|"v6"|"unix", a: octets].                           *)
(***************************************************************************)
EXTENDS Integers, Sequences, FiniteSets

RECURSIVE P2(_)
P2(n) == IF n = 0 THEN 1 ELSE 2 * P2(n - 1)
\* first len bits of octet sequences a and b agree
SameBits(a, b, len) ==
    LET full == len \div 8  r == len % 8 IN
    /\ \A i \in 1..full : a[i] = b[i]
    /\ r # 0 => (a[full + 1] \div P2(8 - r)) = (b[full + 1] \div P2(8 - r))
Mapped(a4) == <<0, 0, 0, 0, 0, 0, 0, 0, 0, 0, 255, 255>> \o a4
IsMapped(a6) == SubSeq(a6, 1, 12) = <<0, 0, 0, 0, 0, 0, 0, 0, 0, 0, 255, 255>>
Low4(a6) == SubSeq(a6, 13, 16)

\* does prefix p = <<fam, net, len>> contain the client address?
InPrefix(p, c) ==
    CASE c.fam = "unix" -> FALSE
      [] p[1] = c.fam -> SameBits(c.a, p[2], p[3])
      [] p[1] = "v6" /\ c.fam = "v4" -> SameBits(Mapped(c.a), p[2], p[3])
      [] p[1] = "v4" /\ c.fam = "v6" -> IsMapped(c.a) /\ SameBits(Low4(c.a), p[2], p[3])

\* "If not specified, then the source address is not matched" / "... is not matched"
Matches(rule, c) ==
    /\ (~rule.any => \E i \in 1..Len(rule.subnets) : InPrefix(rule.subnets[i], c))
    /\ (rule.unix = 1 => c.fam = "unix")
    /\ (rule.unix = 0 => c.fam # "unix")
\* "ACLs are applied in a strict first-match basis."
First(rules, c) == IF \E i \in 1..Len(rules) : Matches(rules[i], c)
                   THEN CHOOSE i \in 1..Len(rules) : Matches(rules[i], c) /\ \A j \in 1..(i - 1) : ~Matches(rules[j], c)
                   ELSE 0
\* "Any client that does not match any ACL will not be granted any access."
Granted(rules, c, op) == LET i == First(rules, c) IN i # 0 /\ op \in rules[i].perms

Ops == {"dns-recursion", "http", "http-metrics", "http-leases"}
=============================================================================
