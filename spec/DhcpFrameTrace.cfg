SPECIFICATION Spec
INVARIANT Report
POSTCONDITION Consumed
CHECK_DEADLOCK FALSE
