SPECIFICATION Spec
CONSTANT Enforce = {"C18"}
INVARIANT Report
POSTCONDITION Consumed
CHECK_DEADLOCK FALSE
