------------------------------- MODULE AclTrace -------------------------------
(***************************************************************************)
(* Trace validation for C08.  One event per decision:                      *)
(*   acl  rules (as loaded from YAML by the real loader), client, op,      *)
(*        binding "fn" (acl::require_permission), "dns" (rcode seen by a   *)
(*        client of the real listener + whether the upstream saw the       *)
(*        question), "http" (status code), and the decision observed       *)
(***************************************************************************)
EXTENDS Acl, TLC, Json, IOUtils
CONSTANT Enforce
Rec == ndJsonDeserialize(IOEnv.TRACE)
N == Len(Rec)
VARIABLES l, viol, stats
vars == <<l, viol, stats>>
SetOf(s) == {s[i] : i \in 1..Len(s)}
Rule(r) == [any |-> r.any, subnets |-> r.subnets, unix |-> r.unix, perms |-> SetOf(r.perms)]
Rules(rs) == [i \in 1..Len(rs) |-> Rule(rs[i])]

HostBits(p) == LET z == [i \in 1..Len(p[2]) |-> 0] IN ~SameBits(p[2], z, Len(p[2]) * 8) /\
               \E k \in (p[3] + 1)..(Len(p[2]) * 8) : LET o == (k - 1) \div 8 + 1  b == 7 - ((k - 1) % 8) IN (p[2][o] \div P2(b)) % 2 = 1
AclEv(e) ==
    LET rules == Rules(e.rules)
        want == Granted(rules, e.client, e.op)
        i == First(rules, e.client)
        leak == e.binding = "dns" /\ ~want /\ (e.forwarded \/ e.answered)
        bad == e.outcome # "ok" \/ e.granted # want \/ leak
        matchedByHostBits == i # 0 /\ ~rules[i].any /\
                             \E k \in 1..Len(rules[i].subnets) : InPrefix(rules[i].subnets[k], e.client) /\ HostBits(rules[i].subnets[k])
        shape == IF e.outcome # "ok" THEN (IF e.client.fam = "unix" THEN "unixClientCrashesHandler" ELSE "handlerFails")
                 ELSE IF leak THEN "refusedQueryForwardedOrAnswered"
                 ELSE IF e.granted /\ ~want THEN
                        (IF e.binding = "http" /\ e.op = "http-leases" THEN "leaseListingServedWithoutPermission"
                         ELSE IF i = 0 THEN "grantedThoughNoRuleMatches" ELSE "grantedThoughFirstMatchLacksPermission")
                 ELSE IF e.client.fam = "v4" /\ i # 0 /\ \E k \in 1..Len(rules[i].subnets) : rules[i].subnets[k][1] = "v6" /\ rules[i].subnets[k][3] < 96 /\ InPrefix(rules[i].subnets[k], e.client)
                      THEN "v4ClientNotMatchedByV6PrefixCoveringMappedRange"
                 ELSE IF matchedByHostBits THEN "subnetWithHostBitsNeverMatches"
                 ELSE "refusedThoughFirstMatchGrants"
    IN /\ viol' = IF bad THEN viol \cup {<<"C08", l, shape>>} ELSE viol
       /\ stats' = [stats EXCEPT !.n = @ + 1, !.granted = @ + (IF want THEN 1 ELSE 0),
                                 !.multi = @ + (IF Cardinality({k \in 1..Len(rules) : Matches(rules[k], e.client)}) >= 2 THEN 1 ELSE 0),
                                 !.nomatch = @ + (IF i = 0 THEN 1 ELSE 0),
                                 !.mapped = @ + (IF e.client.fam = "v6" /\ IsMapped(e.client.a) THEN 1 ELSE 0),
                                 !.hostbits = @ + (IF matchedByHostBits THEN 1 ELSE 0),
                                 !.dns = @ + (IF e.binding = "dns" THEN 1 ELSE 0), !.http = @ + (IF e.binding = "http" THEN 1 ELSE 0)]

Init == l = 1 /\ viol = {} /\ stats = [n |-> 0, granted |-> 0, multi |-> 0, nomatch |-> 0, mapped |-> 0, hostbits |-> 0, dns |-> 0, http |-> 0]
Step == /\ l <= N /\ l' = l + 1
        /\ LET e == Rec[l] IN
           CASE e.ev = "acl" -> AclEv(e)
             [] OTHER -> UNCHANGED <<viol, stats>>
Spec == Init /\ [][Step]_vars
Report == l = N + 1 => PrintT(<<"REPORT", ToJson([viol |-> {v \in viol : v[1] \in Enforce}, drift |-> {}, lines |-> N, stats |-> stats])>>)
Consumed == TLCGet("stats").diameter = N + 1
=============================================================================
