SPECIFICATION Spec
CONSTANTS
  Conds1 = {"none", "sub1", "mac1"}
  Conds2 = {"mac1", "nohost", "sub2"}
  Addrs1 = {"none", "subnet29", "range"}
  Addrs2 = {"none", "single", "subnet30"}
  Opts1 = {"none", "dns1"}
  Opts2 = {"none", "dnsnull"}
  Ips = {65537, 65636, 131073}
  Macs = {1, 2}
  Hosts = {0, 1}
  Plists = {{}, {1, 6, 28}}
  TopAddrs = {"none", "n1_24h"}
INVARIANTS C02Model C11Model Emit
CHECK_DEADLOCK FALSE
