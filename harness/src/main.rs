//! erbium-verif: drivers that replay scenarios into the real erbium code and
//! record NDJSON traces for validation by TLC.  See /verif/DESIGN.md.
mod acl;
mod dhcp;
mod dnscache;
mod dnswalk;
mod dnswire;
mod ingest;
mod conf;
mod policy;
mod radv;
mod ratelimit;
mod rig;
mod righttp;
mod store;
mod wire;
mod util;

fn main() {
    let args: Vec<String> = std::env::args().collect();
    if args.len() < 2 {
        eprintln!("usage: erbium-verif <driver> [options]");
        std::process::exit(2);
    }
    match args[1].as_str() {
        "dhcp" => dhcp::main(&args[2..]),
        "policy" => policy::main(&args[2..]),
        "dnswire" => dnswire::main(&args[2..]),
        "dnscache" => dnscache::main(&args[2..]),
        "acl" => acl::main(&args[2..]),
        "ingest" => ingest::main(&args[2..]),
        "ingest-child" => ingest::child_main(&args[2..]),
        "conf" => conf::main(&args[2..]),
        "conf-child" => conf::child_main(&args[2..]),
        "radv" => radv::main(&args[2..]),
        "rig" => rig::main(&args[2..]),
        "ratelimit" => ratelimit::main(&args[2..]),
        "store" => store::main(&args[2..]),
        "wire" => wire::main(&args[2..]),
        d => {
            eprintln!("unknown driver {}", d);
            std::process::exit(2);
        }
    }
}
