//! C14 / C04 drivers (function level): structured DNS messages are built by the
//! harness in its own abstract form, converted to the crate's `DNSPkt`, encoded
//! by the real `serialise` / `serialise_with_size`, walked by the independent
//! walker (dnswalk.rs) and decoded again by the crate's parser (hook).
use crate::dnswalk::{self, Rec, digest, name_digest, rec_json};
use crate::util::*;
use erbium::dns::dnspkt::{self, DNSPkt};
use serde_json::{Value, json};

pub type Name = Vec<Vec<u8>>;

#[derive(Clone, Debug)]
pub enum AData {
    Other(Vec<u8>),
    Single(Name),                // NS CNAME PTR
    Pref(u16, Name),             // MX RT AFSDB
    Two(Name, Name),             // RP
    Soa(Name, Name, [u32; 5]),
    Naptr(u16, u16, Vec<u8>, Vec<u8>, Vec<u8>, Name),
}

#[derive(Clone, Debug)]
pub struct ARec {
    pub name: Name,
    pub rtype: u16,
    pub class: u16,
    pub ttl: u32,
    pub data: AData,
}

#[derive(Clone, Debug)]
pub struct AEdns {
    pub ver: u8,
    pub dobit: bool,
    pub bufsize: u16,
    pub opts: Vec<(u16, Vec<u8>)>,
}

#[derive(Clone, Debug)]
pub struct AMsg {
    pub id: u16,
    pub qr: bool,
    pub opcode: u8,
    pub aa: bool,
    pub tc: bool,
    pub rd: bool,
    pub ra: bool,
    pub ad: bool,
    pub cd: bool,
    pub rcode: u16, // 12 bits (upper 8 only with EDNS)
    pub qname: Name,
    pub qtype: u16,
    pub qclass: u16,
    pub secs: [Vec<ARec>; 3],
    pub edns: Option<AEdns>,
}

fn wire_name(n: &Name) -> Vec<u8> {
    let mut o = vec![];
    for l in n {
        o.push(l.len() as u8);
        o.extend(l);
    }
    o.push(0);
    o
}

impl ARec {
    /// rdata with names uncompressed (the walker's canonical form)
    pub fn rdata_expanded(&self) -> Vec<u8> {
        match &self.data {
            AData::Other(b) => b.clone(),
            AData::Single(n) => wire_name(n),
            AData::Pref(p, n) => [p.to_be_bytes().to_vec(), wire_name(n)].concat(),
            AData::Two(a, b) => [wire_name(a), wire_name(b)].concat(),
            AData::Soa(a, b, v) => {
                let mut o = [wire_name(a), wire_name(b)].concat();
                for x in v {
                    o.extend(x.to_be_bytes());
                }
                o
            }
            AData::Naptr(o, p, f, s, r, n) => {
                let mut v = [o.to_be_bytes().to_vec(), p.to_be_bytes().to_vec()].concat();
                for x in [f, s, r] {
                    v.push(x.len() as u8);
                    v.extend(x);
                }
                v.extend(wire_name(n));
                v
            }
        }
    }
    pub fn abstract_rec(&self) -> Rec {
        Rec { name: self.name.clone(), rtype: self.rtype, class: self.class, ttl: self.ttl, rdata: self.rdata_expanded(), end: 0 }
    }
}

fn dom(n: &Name) -> dnspkt::Domain {
    dnspkt::Domain::from(n.iter().map(|l| dnspkt::Label::from(l.clone())).collect::<Vec<_>>())
}

fn to_rr(r: &ARec) -> dnspkt::RR {
    use dnspkt::RData;
    let rdata = match &r.data {
        AData::Other(b) => RData::Other(b.clone()),
        AData::Single(n) => match r.rtype {
            2 => RData::Ns(dom(n)),
            5 => RData::CName(dom(n)),
            _ => RData::Ptr(dom(n)),
        },
        AData::Pref(p, n) => match r.rtype {
            15 => RData::Mx(dnspkt::PrefDomainData { pref: *p, domain: dom(n) }),
            21 => RData::Rt(dnspkt::PrefDomainData { pref: *p, domain: dom(n) }),
            _ => RData::AfsDb(dnspkt::AFSDBData { subtype: *p, hostname: dom(n) }),
        },
        AData::Two(a, b) => RData::Rp(dnspkt::RPData { mbox: dom(a), txt: dom(b) }),
        AData::Soa(a, b, v) => RData::Soa(dnspkt::SoaData { mname: dom(a), rname: dom(b), serial: v[0], refresh: v[1], retry: v[2], expire: v[3], minimum: v[4] }),
        AData::Naptr(o, p, f, s, re, n) => RData::NaPtr(dnspkt::NAPTRData { order: *o, preference: *p, flags: f.clone(), services: s.clone(), regexp: re.clone(), replacement: dom(n) }),
    };
    dnspkt::RR { domain: dom(&r.name), class: dnspkt::Class(r.class), rrtype: dnspkt::Type(r.rtype), ttl: r.ttl, rdata }
}

pub fn to_pkt(m: &AMsg) -> DNSPkt {
    DNSPkt {
        qid: m.id,
        rd: m.rd,
        tc: m.tc,
        aa: m.aa,
        qr: m.qr,
        opcode: dnspkt::Opcode(m.opcode),
        cd: m.cd,
        ad: m.ad,
        ra: m.ra,
        rcode: dnspkt::RCode(m.rcode),
        bufsize: m.edns.as_ref().map(|e| e.bufsize).unwrap_or(512),
        edns_ver: m.edns.as_ref().map(|e| e.ver),
        edns_do: m.edns.as_ref().map(|e| e.dobit).unwrap_or(false),
        question: dnspkt::Question { qdomain: dom(&m.qname), qclass: dnspkt::Class(m.qclass), qtype: dnspkt::Type(m.qtype) },
        answer: m.secs[0].iter().map(to_rr).collect(),
        nameserver: m.secs[1].iter().map(to_rr).collect(),
        additional: m.secs[2].iter().map(to_rr).collect(),
        edns: m.edns.as_ref().map(|e| {
            let mut d = dnspkt::EdnsData::new();
            for (c, v) in &e.opts {
                d.set_opt(dnspkt::EdnsOption { code: dnspkt::EdnsCode(*c), data: v.clone() });
            }
            d
        }),
    }
}

/// the flags word and the records the RFCs say this message is, including the OPT pseudo-record
pub fn expected(m: &AMsg) -> (u16, [Vec<Rec>; 3]) {
    let flags = ((m.qr as u16) << 15) | (((m.opcode & 15) as u16) << 11) | ((m.aa as u16) << 10) | ((m.tc as u16) << 9) | ((m.rd as u16) << 8)
        | ((m.ra as u16) << 7) | ((m.ad as u16) << 5) | ((m.cd as u16) << 4) | (m.rcode & 15);
    let mut secs: [Vec<Rec>; 3] = [m.secs[0].iter().map(|r| r.abstract_rec()).collect(), m.secs[1].iter().map(|r| r.abstract_rec()).collect(), m.secs[2].iter().map(|r| r.abstract_rec()).collect()];
    if let Some(e) = &m.edns {
        let mut rd = vec![];
        for (c, v) in &e.opts {
            rd.extend(c.to_be_bytes());
            rd.extend((v.len() as u16).to_be_bytes());
            rd.extend(v);
        }
        secs[2].push(Rec { name: vec![], rtype: 41, class: e.bufsize, ttl: (((m.rcode >> 4) as u32) << 24) | ((e.ver as u32) << 16) | ((e.dobit as u32) << 15), rdata: rd, end: 0 });
    }
    (flags, secs)
}

// ------------------------------------------------------------- generators ---
const LABELS: [&[u8]; 10] = [b"a", b"b", b"c", b"example", b"com", b"net", b"WwW", b"xn--bcher-kva", b"_tcp", b"ns1"];
pub fn gen_name(rng: &mut Rng, pool: &mut Vec<Name>) -> Name {
    if !pool.is_empty() && rng.chance(3, 5) {
        // extend or reuse a suffix of an existing name
        let base = rng.pick(pool).clone();
        let keep = rng.below(base.len() as u64 + 1) as usize;
        let mut n: Name = base[base.len() - keep..].to_vec();
        // the same suffix spelled in another letter case is another spelling: it must come back as written
        // (names compare case-insensitively, RFC 4343, but they are preserved octet for octet)
        if rng.chance(1, 4) {
            for l in n.iter_mut() {
                if rng.chance(1, 2) {
                    *l = l.iter().map(|c| if rng.chance(1, 2) { c.to_ascii_uppercase() } else { c.to_ascii_lowercase() }).collect();
                }
            }
        }
        let extra = rng.below(3);
        for _ in 0..extra {
            n.insert(0, rng.pick(&LABELS).to_vec());
        }
        if n.len() > 8 {
            n.truncate(8);
        }
        pool.push(n.clone());
        return n;
    }
    let depth = rng.below(6) as usize;
    let mut n = vec![];
    for _ in 0..depth {
        if rng.chance(1, 30) {
            n.push(vec![b'x'; 63]);
        } else if rng.chance(1, 20) {
            n.push(rng.bytes_below(1, 8));
        } else {
            n.push(rng.pick(&LABELS).to_vec());
        }
    }
    pool.push(n.clone());
    n
}

pub fn gen_rec(rng: &mut Rng, pool: &mut Vec<Name>, max_opaque: usize) -> ARec {
    let name = gen_name(rng, pool);
    let ttl = rng.pick_or(&[0u32, 1, 60, 300, 86400, 0x7fff_ffff, 0xffff_ffff], |r| r as u32);
    let class = *rng.pick(&[1u16, 1, 1, 3, 255, 0]);
    let (rtype, data) = match rng.below(12) {
        0 => (2, AData::Single(gen_name(rng, pool))),
        1 => (5, AData::Single(gen_name(rng, pool))),
        2 => (12, AData::Single(gen_name(rng, pool))),
        3 => (15, AData::Pref(rng.next() as u16, gen_name(rng, pool))),
        4 => (21, AData::Pref(rng.next() as u16, gen_name(rng, pool))),
        5 => (18, AData::Pref(rng.next() as u16, gen_name(rng, pool))),
        6 => (17, AData::Two(gen_name(rng, pool), gen_name(rng, pool))),
        7 => (6, AData::Soa(gen_name(rng, pool), gen_name(rng, pool), [rng.next() as u32, 1, 2, 3, 0xffff_ffff])),
        8 => (35, AData::Naptr(rng.next() as u16, 1, rng.bytes_below(0, 4), b"SIP+D2U".to_vec(), rng.bytes_of(&[0usize, 1, 255]), gen_name(rng, pool))),
        9 => (1, AData::Other(rng.bytes(4))),
        10 => (16, AData::Other({
            let n = *rng.pick(&[0usize, 1, 12, 255, 256, 1000]);
            rng.bytes(n.min(max_opaque))
        })),
        _ => (*rng.pick(&[28u16, 33, 99, 257, 65280, 0]), AData::Other(rng.bytes_below(0, 40))),
    };
    ARec { name, rtype, class, ttl, data }
}

pub fn gen_msg(rng: &mut Rng, nrec: usize, response: bool) -> AMsg {
    let mut pool: Vec<Name> = vec![];
    let qname = gen_name(rng, &mut pool);
    let edns = if rng.chance(2, 3) {
        let mut opts = vec![];
        for _ in 0..rng.below(3) {
            opts.push((*rng.pick(&[3u16, 8, 10, 15, 65001]), rng.bytes_of(&[0usize, 2, 8, 16, 40])));
        }
        Some(AEdns { ver: 0, dobit: rng.chance(1, 2), bufsize: *rng.pick(&[512u16, 1232, 4096, 65535]), opts })
    } else {
        None
    };
    let mut secs: [Vec<ARec>; 3] = Default::default();
    for _ in 0..nrec {
        let s = rng.below(3) as usize;
        secs[s].push(gen_rec(rng, &mut pool, 1000));
    }
    AMsg {
        id: rng.next() as u16,
        qr: response,
        opcode: *rng.pick(&[0u8, 0, 0, 1, 2, 4, 5, 15]),
        aa: rng.chance(1, 2),
        tc: false,
        rd: rng.chance(1, 2),
        ra: rng.chance(1, 2),
        ad: rng.chance(1, 2),
        cd: rng.chance(1, 2),
        rcode: if edns.is_some() { *rng.pick(&[0u16, 2, 3, 5, 16, 23, 0xfff]) } else { *rng.pick(&[0u16, 2, 3, 5, 15]) },
        qname,
        qtype: *rng.pick(&[1u16, 28, 15, 255, 6, 65535]),
        qclass: *rng.pick(&[1u16, 1, 3, 255]),
        secs,
        edns,
    }
}

/// A message whose names are first written around offset 16384 and reused afterwards.
pub fn gen_boundary_msg(rng: &mut Rng, delta: i64) -> AMsg {
    let mut m = gen_msg(rng, 3, true);
    m.secs = Default::default();
    // measure what has been written so far (header + question + whatever), then pad with an opaque record so that the
    // owner name of the NEXT record starts at 16384 + delta
    let probe = guarded(|| to_pkt(&AMsg { edns: None, ..m.clone() }).serialise()).unwrap_or_default();
    let used = probe.len(); // header + question
    // padding record: root owner name (1 octet) + 10 + rdata
    let target = (16384 + delta) as usize;
    let mut remaining = target - used;
    while remaining > 0 {
        let chunk = remaining.min(4000 + 11);
        if chunk < 11 {
            break;
        }
        m.secs[0].push(ARec { name: vec![], rtype: 16, class: 1, ttl: 5, data: AData::Other(vec![0x61; chunk - 11]) });
        remaining -= chunk;
    }
    let fresh: Name = vec![b"late".to_vec(), format!("z{}", rng.below(1000)).into_bytes(), b"example".to_vec()];
    let deeper: Name = [vec![b"deeper".to_vec()], fresh.clone()].concat();
    m.secs[0].push(ARec { name: fresh.clone(), rtype: 1, class: 1, ttl: 60, data: AData::Other(vec![192, 0, 2, 1]) });
    m.secs[0].push(ARec { name: deeper.clone(), rtype: 5, class: 1, ttl: 60, data: AData::Single(fresh.clone()) });
    m.secs[1].push(ARec { name: fresh.clone(), rtype: 2, class: 1, ttl: 60, data: AData::Single([vec![b"ns".to_vec()], deeper.clone()].concat()) });
    m.secs[2].push(ARec { name: [vec![b"ns".to_vec()], deeper].concat(), rtype: 15, class: 1, ttl: 60, data: AData::Pref(10, fresh.clone()) });
    // names that share only a proper suffix of the fresh name: the pointer they need targets a label in the MIDDLE of the
    // fresh name (zN or example), which the delta sweep places at exactly 16384 -- a pointer that must not be written
    m.secs[2].push(ARec { name: [vec![b"sib".to_vec()], fresh[1..].to_vec()].concat(), rtype: 1, class: 1, ttl: 60, data: AData::Other(vec![192, 0, 2, 2]) });
    m.secs[2].push(ARec { name: [vec![b"cousin".to_vec()], fresh[2..].to_vec()].concat(), rtype: 1, class: 1, ttl: 60, data: AData::Other(vec![192, 0, 2, 3]) });
    m
}

// ------------------------------------------------------------- projections --
fn secs_json(secs: &[Vec<Rec>; 3], full: bool) -> Value {
    if full {
        json!([secs[0].iter().map(rec_json).collect::<Vec<_>>(), secs[1].iter().map(rec_json).collect::<Vec<_>>(), secs[2].iter().map(rec_json).collect::<Vec<_>>()])
    } else {
        // per-section digest (many records): count + digest of the concatenated record projections
        let d = |v: &Vec<Rec>| {
            let s: String = v.iter().map(|r| rec_json(r).to_string()).collect::<Vec<_>>().join("|");
            json!([["digest", v.len(), digest(s.as_bytes())]])
        };
        json!([d(&secs[0]), d(&secs[1]), d(&secs[2])])
    }
}

fn walk_json(w: &dnswalk::Walk, full: bool, all_ptrs: bool) -> Value {
    let ptrs: Vec<Value> = if all_ptrs { w.ptrs.iter().map(|p| json!([p.0, p.1])).collect() } else {
        w.ptrs.iter().filter(|p| p.1 >= 0x3f00 || p.1 >= p.0).take(400).map(|p| json!([p.0, p.1])).collect()
    };
    let starts: std::collections::HashSet<usize> = w.writes.iter().map(|x| x.0).collect();
    let writes: Vec<Value> = if all_ptrs { w.writes.iter().map(|x| json!(x.0)).collect() } else {
        w.writes.iter().filter(|x| x.0 >= 0x3f00).take(400).map(|x| json!(x.0)).collect()
    };
    json!({"ok":w.ok,"why":w.why,"id":w.id,"flags":w.flags,"counts":w.counts,"q":[name_digest(&w.qname), w.qtype, w.qclass],
           "secs":secs_json(&w.secs, full),"len":w.len,
           "ptrs":ptrs,"writes":writes,"nptrs":w.ptrs.len(),
           "ptr_summary":{"n": w.ptrs.len(), "not_backward": w.ptrs.iter().filter(|p| p.1 >= p.0).count(),
                          "beyond_16k": w.ptrs.iter().filter(|p| p.1 >= 0x4000).count(),
                          "not_label_start": w.ptrs.iter().filter(|p| !starts.contains(&p.1)).count(),
                          "all_logged": all_ptrs}})
}

fn diff_fields(a: &DNSPkt, b: &DNSPkt) -> Vec<&'static str> {
    let mut v = vec![];
    if a.qid != b.qid { v.push("qid"); }
    if (a.rd, a.tc, a.aa, a.qr, a.cd, a.ad, a.ra) != (b.rd, b.tc, b.aa, b.qr, b.cd, b.ad, b.ra) { v.push("flags"); }
    if a.opcode != b.opcode { v.push("opcode"); }
    if a.rcode != b.rcode { v.push("rcode"); }
    if a.bufsize != b.bufsize { v.push("bufsize"); }
    if a.edns_ver != b.edns_ver { v.push("edns_ver"); }
    if a.edns_do != b.edns_do { v.push("edns_do"); }
    if a.question != b.question { v.push("question"); }
    if a.answer != b.answer { v.push("answer"); }
    if a.nameserver != b.nameserver { v.push("nameserver"); }
    if a.additional != b.additional { v.push("additional"); }
    if a.edns != b.edns { v.push("edns"); }
    v
}

pub fn rt_event(m: &AMsg, src: &str) -> Value {
    let nrec = m.secs.iter().map(|s| s.len()).sum::<usize>();
    let full = nrec <= 64;
    let (flags, esecs) = expected(m);
    let counts = [1, esecs[0].len(), esecs[1].len(), esecs[2].len()];
    let mj = json!({"id":m.id,"flags":flags,"counts":counts,"q":[name_digest(&m.qname), m.qtype, m.qclass],"secs":secs_json(&esecs, full),"nrec":nrec});
    let pkt = to_pkt(m);
    match guarded(|| pkt.serialise()) {
        Err(p) => json!({"ev":"dns_rt","src":src,"m":mj,"ser":"panic","err":p,"walk":{"ok":false},"crate":{"outcome":"skipped"}}),
        Ok(bytes) => {
            let w = dnswalk::walk(&bytes);
            let c = match guarded(|| erbium::dns::verif::parse(&bytes)) {
                Ok(Ok(d)) => json!({"outcome":"ok","eq": d == pkt, "diff": diff_fields(&d, &pkt)}),
                Ok(Err(e)) => json!({"outcome":"err","err":e,"eq":false}),
                Err(p) => json!({"outcome":"panic","err":p,"eq":false}),
            };
            json!({"ev":"dns_rt","src":src,"m":mj,"ser":"ok","walk":walk_json(&w, full, nrec <= 300),"crate":c})
        }
    }
}

/// decode(b) = Ok(m)  =>  decode(encode(m)) = Ok(m), for byte strings b (mutations of valid encodings)
pub fn image_event(b: &[u8]) -> Option<Value> {
    let m = match guarded(|| erbium::dns::verif::parse(b)) {
        Ok(Ok(m)) => m,
        _ => return None,
    };
    let wb = dnswalk::walk(b);
    let ev = match guarded(|| m.serialise()) {
        Err(p) => json!({"ev":"dns_image","in_len":b.len(),"ser":"panic","err":p,"eq":false,"walk_in_ok":wb.ok}),
        Ok(bytes) => {
            let (eq, outcome) = match guarded(|| erbium::dns::verif::parse(&bytes)) {
                Ok(Ok(m2)) => (m2 == m, "ok"),
                Ok(Err(_)) => (false, "err"),
                Err(_) => (false, "panic"),
            };
            let w2 = dnswalk::walk(&bytes);
            // independent comparison when the walker understands the input as well: same records, names expanded
            let same = wb.ok && w2.ok && wb.secs[0] .iter().map(|r| (&r.name, r.rtype, r.class, r.ttl, &r.rdata)).eq(w2.secs[0].iter().map(|r| (&r.name, r.rtype, r.class, r.ttl, &r.rdata)))
                && wb.secs[1].iter().map(|r| (&r.name, r.rtype, r.class, r.ttl, &r.rdata)).eq(w2.secs[1].iter().map(|r| (&r.name, r.rtype, r.class, r.ttl, &r.rdata)));
            json!({"ev":"dns_image","in_len":b.len(),"ser":"ok","decode2":outcome,"eq":eq,"walk_in_ok":wb.ok,"walk_out_ok":w2.ok,"walk_same_an_ns": same || !wb.ok,
                   "ptr_summary":{"n": w2.ptrs.len(), "not_backward": w2.ptrs.iter().filter(|p| p.1 >= p.0).count(), "beyond_16k": w2.ptrs.iter().filter(|p| p.1 >= 0x4000).count()}})
        }
    };
    Some(ev)
}

fn rt(args: &[String]) {
    let mut out = Trace::create(&arg(args, "--out").expect("--out"));
    let mut rng = Rng::new(arg_u64(args, "--seed", 1));
    let n = arg_u64(args, "--n", 150);
    let big = arg_u64(args, "--big", 2);
    quiet_panics();
    let mut seeds: Vec<Vec<u8>> = vec![];
    for i in 0..n {
        let nrec = *rng.pick(&[0usize, 1, 2, 3, 5, 8, 20, 40, 64]);
        let m = gen_msg(&mut rng, nrec, i % 2 == 0);
        let e = rt_event(&m, "gen");
        if let Ok(b) = guarded(|| to_pkt(&m).serialise()) {
            if seeds.len() < 60 {
                seeds.push(b);
            }
        }
        out.emit(e);
    }
    for _ in 0..big {
        let nrec = *rng.pick(&[300usize, 1000, 2000]);
        let mut m = gen_msg(&mut rng, 0, true);
        let mut pool = vec![];
        for _ in 0..nrec {
            let s = rng.below(3) as usize;
            m.secs[s].push(gen_rec(&mut rng, &mut pool, 12));
        }
        // the property ranges over messages of up to 65535 octets: drop records until the whole message (with its OPT
        // record) is encoded complete and with room to spare.  (Measured with the encoder's own limit: beyond 64 KiB
        // its offsets do not fit 16 bits, which production never asks of it.)
        loop {
            let bytes = guarded(|| to_pkt(&m).serialise()).unwrap_or_default();
            let w = dnswalk::walk(&bytes);
            let written: usize = w.counts[1..].iter().map(|c| *c as usize).sum();
            let wanted: usize = m.secs.iter().map(|s| s.len()).sum::<usize>() + m.edns.is_some() as usize;
            if (bytes.len() <= 65000 && written >= wanted) || wanted <= 1 {
                break;
            }
            for s in 0..3 {
                let l = m.secs[s].len();
                m.secs[s].truncate(l - l / 8 - 1.min(l));
            }
        }
        if std::env::var("VERIF_DEBUG").is_ok() {
            eprintln!("big: {} records, measured {:?}, plain {:?}", m.secs.iter().map(|s| s.len()).sum::<usize>(), guarded(|| to_pkt(&m).serialise_with_size(70000).len()), guarded(|| to_pkt(&m).serialise().len()));
        }
        out.emit(rt_event(&m, "big"));
    }
    // every delta from -12 to 2: each label of the fresh name (late . zN . example, 5 + 3..5 + 8 octets) is once the one
    // first written at exactly 16383 / 16384 / 16385 -- a label is looked up from the root end of the name, so it is the
    // label nearest the root among the newly written ones that decides whether a pointer to offset 16384 is attempted
    for d in [-40i64, -12, -11, -10, -9, -8, -7, -6, -5, -4, -3, -2, -1, 0, 1, 2, 30, 3000] {
        let m = gen_boundary_msg(&mut rng, d);
        out.emit(rt_event(&m, "boundary16k"));
    }
    // names nested at every depth: x1; x2.x1; x3.x2.x1; ... -- each is written as one label and a pointer to the one before,
    // so reading the deepest one follows a chain of depth-1 pointers (a name has up to 127 labels)
    for depth in [2usize, 5, 9, 10, 11, 12, 13, 20, 40, 100, 126] {
        let mut m = gen_msg(&mut rng, 0, true);
        m.edns = None;
        m.rcode &= 15;
        m.qname = vec![b"x1".to_vec()];
        let mut name: Name = vec![];
        for i in 1..=depth {
            // one-octet labels keep the deepest name below 255 octets
            name.insert(0, if depth > 60 { vec![b'a' + (i % 26) as u8] } else { format!("x{}", i).into_bytes() });
            m.secs[0].push(ARec { name: name.clone(), rtype: 1, class: 1, ttl: 60, data: AData::Other(vec![192, 0, 2, i as u8]) });
        }
        if depth <= 60 {
            m.secs[1].push(ARec { name: name.clone(), rtype: 2, class: 1, ttl: 60, data: AData::Single([vec![b"ns".to_vec()], name.clone()].concat()) });
        }
        m.qname = if depth > 60 { vec![vec![b'a' + 1]] } else { vec![b"x1".to_vec()] };
        out.emit(rt_event(&m, "nested"));
    }
    // one opaque record of maximal size
    for sz in [65535usize - 12 - 5 - 11 - 20, 60000, 40000] {
        let mut m = gen_msg(&mut rng, 0, true);
        m.edns = None;
        m.rcode &= 15; // an extended rcode needs an OPT record
        m.qname = vec![b"big".to_vec()];
        m.secs[0].push(ARec { name: vec![b"big".to_vec()], rtype: 16, class: 1, ttl: 1, data: AData::Other(vec![7u8; sz]) });
        out.emit(rt_event(&m, "maxrdata"));
    }
    // the decoder's image: mutations of valid encodings
    let mut accepted = 0;
    let tries = n * 40;
    for _ in 0..tries {
        let mut b = rng.pick(&seeds).clone();
        let k = 1 + rng.below(3);
        for _ in 0..k {
            if b.is_empty() {
                break;
            }
            let i = rng.below(b.len() as u64) as usize;
            match rng.below(4) {
                0 => b[i] = rng.next() as u8,
                1 => b[i] = *rng.pick(&[0u8, 0xc0, 0x0c, 0xff, 1, 63, 64]),
                2 => {
                    b.truncate(i);
                }
                _ => {
                    b.insert(i, rng.next() as u8);
                }
            }
        }
        if let Some(e) = image_event(&b) {
            accepted += 1;
            out.emit(e);
        }
    }
    let lines = out.finish();
    eprintln!("dnswire rt: {} events ({} accepted mutations of {})", lines, accepted, tries);
}

/// C04 at function level: serialise_with_size(limit)
fn emit(args: &[String]) {
    let mut out = Trace::create(&arg(args, "--out").expect("--out"));
    let mut rng = Rng::new(arg_u64(args, "--seed", 1));
    let n = arg_u64(args, "--n", 150);
    quiet_panics();
    for i in 0..n {
        // records with sizes that land the cumulative length around the limit
        let limit = *rng.pick(&[512usize, 512, 513, 600, 1232, 4096, 16384, 65535]);
        let mut m = gen_msg(&mut rng, 0, true);
        m.tc = false;
        let mut pool = vec![];
        let full_target = match i % 4 {
            0 => limit / 2,
            1 => limit,
            2 => limit + 200,
            _ => limit * 3,
        }
        .min(65000);
        // fill sections with records until the unlimited encoding reaches the target
        let mut sec = 0;
        loop {
            let r = if rng.chance(1, 2) {
                let sz = *rng.pick(&[0usize, 1, 10, 50, 100, 255, 300]);
                ARec { name: gen_name(&mut rng, &mut pool), rtype: 16, class: 1, ttl: 60, data: AData::Other(vec![b'x'; sz]) }
            } else {
                gen_rec(&mut rng, &mut pool, 200)
            };
            m.secs[sec].push(r);
            let len = guarded(|| to_pkt(&m).serialise().len()).unwrap_or(usize::MAX);
            if len >= full_target || len == usize::MAX {
                break;
            }
            if rng.chance(1, 6) && sec < 2 {
                sec += 1;
            }
        }
        // fine adjustment: make the unlimited length hit limit-1, limit, limit+1 exactly when possible
        if i % 4 == 1 {
            let want = limit as i64 + (i as i64 / 4 % 3) - 1;
            let len = guarded(|| to_pkt(&m).serialise().len()).unwrap_or(0) as i64;
            let last = m.secs[sec].last_mut().unwrap();
            if let AData::Other(b) = &mut last.data {
                let nl = b.len() as i64 - (len - want);
                if (0..60000).contains(&nl) {
                    b.resize(nl as usize, b'y');
                }
            }
        }
        let pkt = to_pkt(&m);
        let full = guarded(|| pkt.serialise());
        let (flags, esecs) = expected(&m);
        let _ = flags;
        let all: Vec<Value> = esecs.iter().flat_map(|s| s.iter().map(rec_json)).collect();
        let (fullw, cum): (Value, Vec<usize>) = match &full {
            Ok(b) => {
                let w = dnswalk::walk(b);
                let cum: Vec<usize> = w.secs.iter().flat_map(|s| s.iter().map(|r| r.end)).collect();
                (json!({"ok":w.ok,"len":b.len(),"qend":w.qend}), cum)
            }
            Err(_) => (json!({"ok":false,"len":0,"qend":0}), vec![]),
        };
        let res = guarded(|| pkt.serialise_with_size(limit));
        let outj = match &res {
            Ok(b) => {
                let w = dnswalk::walk(b);
                let recs: Vec<Value> = w.secs.iter().flat_map(|s| s.iter().map(rec_json)).collect();
                json!({"outcome":"ok","len":b.len(),"parse_ok":w.ok,"why":w.why,"tc":(w.flags >> 9) & 1 == 1,
                       "hdr_counts":[w.counts[1],w.counts[2],w.counts[3]],"sec_lens":[w.secs[0].len(),w.secs[1].len(),w.secs[2].len()],"recs":recs})
            }
            Err(p) => json!({"outcome":"panic","err":p,"len":0,"parse_ok":false,"tc":false,"hdr_counts":[0,0,0],"sec_lens":[0,0,0],"recs":[]}),
        };
        out.emit(json!({"ev":"dns_emit","limit":limit,"full":fullw,"cum":cum,"all":all,
                        "sec_full":[esecs[0].len(),esecs[1].len(),esecs[2].len()],"out":outj}));
    }
    let lines = out.finish();
    eprintln!("dnswire emit: {} events", lines);
}

pub fn main(args: &[String]) {
    match args.first().map(|s| s.as_str()) {
        Some("rt") => rt(&args[1..]),
        Some("emit") => emit(&args[1..]),
        _ => {
            eprintln!("usage: dnswire rt|emit ...");
            std::process::exit(2)
        }
    }
}

// ------------------------------------------------------------------------
/// The harness's own encoder for a whole message (used by the scripted
/// upstream): no use of the crate's serialiser.  With `compress`, owner names
/// equal to the question name are written as a pointer to offset 12.
pub fn encode_plain(m: &AMsg, compress: bool) -> Vec<u8> {
    let (flags, secs) = expected(m);
    let mut b = vec![];
    b.extend(m.id.to_be_bytes());
    b.extend(flags.to_be_bytes());
    b.extend(1u16.to_be_bytes());
    for s in &secs {
        b.extend((s.len() as u16).to_be_bytes());
    }
    b.extend(wire_name(&m.qname));
    b.extend(m.qtype.to_be_bytes());
    b.extend(m.qclass.to_be_bytes());
    for s in &secs {
        for r in s {
            if compress && !m.qname.is_empty() && r.name == m.qname {
                b.extend([0xc0, 12]);
            } else {
                b.extend(wire_name(&r.name));
            }
            b.extend(r.rtype.to_be_bytes());
            b.extend(r.class.to_be_bytes());
            b.extend(r.ttl.to_be_bytes());
            b.extend((r.rdata.len() as u16).to_be_bytes());
            b.extend(&r.rdata);
        }
    }
    b
}
