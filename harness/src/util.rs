//! Shared helpers: deterministic PRNG, trace writer, panic capture.
use serde_json::Value;
use std::io::Write;

pub struct Rng(pub u64);
impl Rng {
    pub fn new(seed: u64) -> Self {
        Rng(seed ^ 0x9E37_79B9_7F4A_7C15)
    }
    pub fn next(&mut self) -> u64 {
        self.0 = self.0.wrapping_add(0x9E37_79B9_7F4A_7C15);
        let mut z = self.0;
        z = (z ^ (z >> 30)).wrapping_mul(0xBF58_476D_1CE4_E5B9);
        z = (z ^ (z >> 27)).wrapping_mul(0x94D0_49BB_1331_11EB);
        z ^ (z >> 31)
    }
    pub fn below(&mut self, n: u64) -> u64 {
        if n == 0 { 0 } else { self.next() % n }
    }
    pub fn range(&mut self, lo: i64, hi: i64) -> i64 {
        lo + self.below((hi - lo + 1) as u64) as i64
    }
    pub fn chance(&mut self, num: u64, den: u64) -> bool {
        self.below(den) < num
    }
    pub fn pick<'a, T>(&mut self, v: &'a [T]) -> &'a T {
        &v[self.below(v.len() as u64) as usize]
    }
    /// one of `fixed`, or (with equal weight) a fresh random value
    pub fn pick_or<T: Copy>(&mut self, fixed: &[T], f: impl FnOnce(u64) -> T) -> T {
        let r = self.next();
        let i = self.below(fixed.len() as u64 + 1) as usize;
        if i == fixed.len() { f(r) } else { fixed[i] }
    }
    /// `lo + below(n)` random octets
    pub fn bytes_below(&mut self, lo: usize, n: u64) -> Vec<u8> {
        let k = lo + self.below(n) as usize;
        self.bytes(k)
    }
    /// random octets of one of the given lengths
    pub fn bytes_of(&mut self, lens: &[usize]) -> Vec<u8> {
        let k = *self.pick(lens);
        self.bytes(k)
    }
    pub fn bytes(&mut self, n: usize) -> Vec<u8> {
        (0..n).map(|_| self.next() as u8).collect()
    }
}

pub struct Trace {
    w: std::io::BufWriter<std::fs::File>,
    pub lines: usize,
}
impl Trace {
    pub fn create(path: &str) -> Trace {
        let f = std::fs::File::create(path).unwrap_or_else(|e| {
            eprintln!("cannot create {}: {}", path, e);
            std::process::exit(2)
        });
        Trace { w: std::io::BufWriter::new(f), lines: 0 }
    }
    pub fn emit(&mut self, v: Value) {
        serde_json::to_writer(&mut self.w, &v).unwrap();
        self.w.write_all(b"\n").unwrap();
        self.lines += 1;
    }
    pub fn flush(&mut self) {
        self.w.flush().unwrap();
    }
    pub fn finish(mut self) -> usize {
        self.w.flush().unwrap();
        self.lines
    }
}

thread_local! {
    pub static LAST_PANIC: std::cell::RefCell<String> = const { std::cell::RefCell::new(String::new()) };
}

/// Install a panic hook that records the message instead of printing it.
pub fn quiet_panics() {
    std::panic::set_hook(Box::new(|info| {
        let msg = format!("{}", info);
        LAST_PANIC.with(|p| *p.borrow_mut() = msg);
    }));
}

/// Run code under test; a panic is data, not a crash of the harness.
pub fn guarded<T>(f: impl FnOnce() -> T) -> Result<T, String> {
    match std::panic::catch_unwind(std::panic::AssertUnwindSafe(f)) {
        Ok(v) => Ok(v),
        Err(_) => Err(LAST_PANIC.with(|p| p.borrow().clone())),
    }
}

pub fn arg(args: &[String], name: &str) -> Option<String> {
    args.iter().position(|a| a == name).and_then(|i| args.get(i + 1).cloned())
}
pub fn arg_or(args: &[String], name: &str, d: &str) -> String {
    arg(args, name).unwrap_or_else(|| d.to_string())
}
pub fn arg_u64(args: &[String], name: &str, d: u64) -> u64 {
    arg(args, name).map(|s| s.parse().expect("numeric argument")).unwrap_or(d)
}

pub fn read_ndjson(path: &str) -> Vec<Value> {
    let s = std::fs::read_to_string(path).unwrap_or_else(|e| {
        eprintln!("cannot read {}: {}", path, e);
        std::process::exit(2)
    });
    s.lines()
        .filter(|l| !l.trim().is_empty())
        .map(|l| serde_json::from_str(l).unwrap_or_else(|e| {
            eprintln!("bad json in {}: {}: {}", path, e, l);
            std::process::exit(2)
        }))
        .collect()
}

pub fn now_secs() -> i64 {
    std::time::SystemTime::now()
        .duration_since(std::time::UNIX_EPOCH)
        .unwrap()
        .as_secs() as i64
}

pub fn hex(b: &[u8]) -> String {
    b.iter().map(|x| format!("{:02x}", x)).collect()
}

pub fn unhex(s: &str) -> Vec<u8> {
    (0..s.len() / 2).map(|i| u8::from_str_radix(&s[2 * i..2 * i + 2], 16).unwrap_or(0)).collect()
}

/// A child process running code under test: one request line in, one JSON line out.  A child that
/// dies (abort, stack overflow, allocation failure) or does not answer in time is an outcome.
pub struct Worker {
    pub child: std::process::Child,
    sub: String,
    timeout_s: u64,
    mem_kb: u64,
    stdin: std::process::ChildStdin,
    rx: std::sync::mpsc::Receiver<String>,
    errlog: String,
    pub restarts: usize,
}

impl Worker {
    pub fn spawn(sub: &str, errlog: &str, timeout_s: u64, mem_kb: u64) -> Worker {
        use std::io::BufRead;
        let err = std::fs::File::create(errlog).expect("errlog");
        // an address-space limit (ulimit -v) turns runaway allocation into an abort of the child only
        let exe = std::env::current_exe().unwrap();
        let mut cmd = if mem_kb > 0 {
            let mut c = std::process::Command::new("sh");
            c.arg("-c").arg(format!("ulimit -v {}; exec \"{}\" {}", mem_kb, exe.display(), sub));
            c
        } else {
            let mut c = std::process::Command::new(exe);
            c.arg(sub);
            c
        };
        let mut child = cmd
            .stdin(std::process::Stdio::piped())
            .stdout(std::process::Stdio::piped())
            .stderr(err)
            .spawn()
            .expect("spawn ingest-child");
        let stdin = child.stdin.take().unwrap();
        let stdout = child.stdout.take().unwrap();
        let (tx, rx) = std::sync::mpsc::channel();
        std::thread::spawn(move || {
            for l in std::io::BufReader::new(stdout).lines() {
                match l {
                    Ok(l) => {
                        if tx.send(l).is_err() {
                            break;
                        }
                    }
                    Err(_) => break,
                }
            }
        });
        Worker { child, sub: sub.to_string(), timeout_s, mem_kb, stdin, rx, errlog: errlog.to_string(), restarts: 0 }
    }

    /// one request; a dead or stuck child is an outcome
    pub fn call(&mut self, line: &str) -> Value {
        use std::io::Write;
        let sent = writeln!(self.stdin, "{}", line).and_then(|_| self.stdin.flush());
        let r = if sent.is_ok() { self.rx.recv_timeout(std::time::Duration::from_secs(self.timeout_s)) } else { Err(std::sync::mpsc::RecvTimeoutError::Disconnected) };
        match r {
            Ok(l) => serde_json::from_str(&l).unwrap_or(serde_json::json!({"outcome":"garbled","answered":false,"detail":l})),
            Err(e) => {
                let hung = matches!(e, std::sync::mpsc::RecvTimeoutError::Timeout);
                if hung {
                    let _ = self.child.kill();
                }
                let status = self.child.wait().map(|s| format!("{}", s)).unwrap_or_default();
                let mut tail = std::fs::read_to_string(&self.errlog).unwrap_or_default();
                if tail.len() > 300 {
                    tail = tail[tail.len() - 300..].to_string();
                }
                let errlog = self.errlog.clone();
                let restarts = self.restarts + 1;
                let (sub, t, m) = (self.sub.clone(), self.timeout_s, self.mem_kb);
                *self = Worker::spawn(&sub, &errlog, t, m);
                self.restarts = restarts;
                serde_json::json!({"outcome": if hung { "hang" } else { "abort" }, "answered": false, "detail": format!("{} {}", status, tail.replace('\n', " "))})
            }
        }
    }
}


/// erbium runs with the log level "info" by default, and formatting a log record runs code (Display of
/// options, addresses, ...): format every record the way a logger would, and drop it.
struct FormatOnlyLogger;
impl log::Log for FormatOnlyLogger {
    fn enabled(&self, m: &log::Metadata) -> bool {
        m.level() <= log::Level::Info
    }
    fn log(&self, r: &log::Record) {
        if self.enabled(r.metadata()) {
            let _ = format!("{}", r.args());
        }
    }
    fn flush(&self) {}
}
pub fn install_info_logger() {
    static L: FormatOnlyLogger = FormatOnlyLogger;
    if log::set_logger(&L).is_ok() {
        log::set_max_level(log::LevelFilter::Info);
    }
}
