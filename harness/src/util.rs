//! Shared helpers: deterministic PRNG, trace writer, panic capture.
use serde_json::Value;
use std::io::Write;

pub struct Rng(pub u64);
impl Rng {
    pub fn new(seed: u64) -> Self {
        Rng(seed ^ 0x9E37_79B9_7F4A_7C15)
    }
    pub fn next(&mut self) -> u64 {
        self.0 = self.0.wrapping_add(0x9E37_79B9_7F4A_7C15);
        let mut z = self.0;
        z = (z ^ (z >> 30)).wrapping_mul(0xBF58_476D_1CE4_E5B9);
        z = (z ^ (z >> 27)).wrapping_mul(0x94D0_49BB_1331_11EB);
        z ^ (z >> 31)
    }
    pub fn below(&mut self, n: u64) -> u64 {
        if n == 0 { 0 } else { self.next() % n }
    }
    pub fn range(&mut self, lo: i64, hi: i64) -> i64 {
        lo + self.below((hi - lo + 1) as u64) as i64
    }
    pub fn chance(&mut self, num: u64, den: u64) -> bool {
        self.below(den) < num
    }
    pub fn pick<'a, T>(&mut self, v: &'a [T]) -> &'a T {
        &v[self.below(v.len() as u64) as usize]
    }
    /// one of `fixed`, or (with equal weight) a fresh random value
    pub fn pick_or<T: Copy>(&mut self, fixed: &[T], f: impl FnOnce(u64) -> T) -> T {
        let r = self.next();
        let i = self.below(fixed.len() as u64 + 1) as usize;
        if i == fixed.len() { f(r) } else { fixed[i] }
    }
    /// `lo + below(n)` random octets
    pub fn bytes_below(&mut self, lo: usize, n: u64) -> Vec<u8> {
        let k = lo + self.below(n) as usize;
        self.bytes(k)
    }
    /// random octets of one of the given lengths
    pub fn bytes_of(&mut self, lens: &[usize]) -> Vec<u8> {
        let k = *self.pick(lens);
        self.bytes(k)
    }
    pub fn bytes(&mut self, n: usize) -> Vec<u8> {
        (0..n).map(|_| self.next() as u8).collect()
    }
}

pub struct Trace {
    w: std::io::BufWriter<std::fs::File>,
    pub lines: usize,
}
impl Trace {
    pub fn create(path: &str) -> Trace {
        let f = std::fs::File::create(path).unwrap_or_else(|e| {
            eprintln!("cannot create {}: {}", path, e);
            std::process::exit(2)
        });
        Trace { w: std::io::BufWriter::new(f), lines: 0 }
    }
    pub fn emit(&mut self, v: Value) {
        serde_json::to_writer(&mut self.w, &v).unwrap();
        self.w.write_all(b"\n").unwrap();
        self.lines += 1;
    }
    pub fn flush(&mut self) {
        self.w.flush().unwrap();
    }
    pub fn finish(mut self) -> usize {
        self.w.flush().unwrap();
        self.lines
    }
}

thread_local! {
    pub static LAST_PANIC: std::cell::RefCell<String> = const { std::cell::RefCell::new(String::new()) };
}

/// Install a panic hook that records the message instead of printing it.
pub fn quiet_panics() {
    std::panic::set_hook(Box::new(|info| {
        let msg = format!("{}", info);
        LAST_PANIC.with(|p| *p.borrow_mut() = msg);
    }));
}

/// Run code under test; a panic is data, not a crash of the harness.
pub fn guarded<T>(f: impl FnOnce() -> T) -> Result<T, String> {
    match std::panic::catch_unwind(std::panic::AssertUnwindSafe(f)) {
        Ok(v) => Ok(v),
        Err(_) => Err(LAST_PANIC.with(|p| p.borrow().clone())),
    }
}

pub fn arg(args: &[String], name: &str) -> Option<String> {
    args.iter().position(|a| a == name).and_then(|i| args.get(i + 1).cloned())
}
pub fn arg_or(args: &[String], name: &str, d: &str) -> String {
    arg(args, name).unwrap_or_else(|| d.to_string())
}
pub fn arg_u64(args: &[String], name: &str, d: u64) -> u64 {
    arg(args, name).map(|s| s.parse().expect("numeric argument")).unwrap_or(d)
}

pub fn read_ndjson(path: &str) -> Vec<Value> {
    let s = std::fs::read_to_string(path).unwrap_or_else(|e| {
        eprintln!("cannot read {}: {}", path, e);
        std::process::exit(2)
    });
    s.lines()
        .filter(|l| !l.trim().is_empty())
        .map(|l| serde_json::from_str(l).unwrap_or_else(|e| {
            eprintln!("bad json in {}: {}: {}", path, e, l);
            std::process::exit(2)
        }))
        .collect()
}

pub fn now_secs() -> i64 {
    std::time::SystemTime::now()
        .duration_since(std::time::UNIX_EPOCH)
        .unwrap()
        .as_secs() as i64
}

pub fn hex(b: &[u8]) -> String {
    b.iter().map(|x| format!("{:02x}", x)).collect()
}
