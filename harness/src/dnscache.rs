//! C06 driver (function level): the cache's own insert / lookup / expire code
//! (hook dns::verif::VerifCache) under tokio's paused clock.  Queries are wire
//! bytes built by the harness's own encoder and decoded by the crate, so the
//! header bits that make up the cache key travel the real decode path.
use crate::dnswalk::{build_query, lower, name_digest};
use crate::dnswire::{AData, AMsg, ARec, to_pkt};
use crate::util::*;
use serde_json::{Value, json};

fn pair(t: u32) -> Value {
    json!([t >> 16, t & 0xffff])
}

struct Q {
    name: Vec<Vec<u8>>,
    qtype: u16,
    dobit: bool,
    cd: bool,
    ad: bool,
}
impl Q {
    fn key(&self) -> Value {
        json!([name_digest(&lower(&self.name)), self.qtype, self.dobit, self.cd])
    }
    fn exact(&self) -> Value {
        json!([name_digest(&self.name), self.qtype, self.dobit, self.cd])
    }
    fn pkt(&self) -> erbium::dns::dnspkt::DNSPkt {
        let b = build_query(7, true, self.cd, self.ad, &self.name, self.qtype, 1, if self.dobit { Some((1232, true, vec![])) } else { None });
        erbium::dns::verif::parse(&b).expect("harness query must be decodable")
    }
}

fn reply(q: &Q, ttls: &[Vec<u32>; 3], rcode: u16) -> AMsg {
    let mut secs: [Vec<ARec>; 3] = Default::default();
    for s in 0..3 {
        for (i, t) in ttls[s].iter().enumerate() {
            secs[s].push(ARec { name: q.name.clone(), rtype: if s == 1 { 2 } else { 1 }, class: 1, ttl: *t,
                                data: if s == 1 { AData::Single(vec![b"ns".to_vec(), vec![b'a' + i as u8]]) } else { AData::Other(vec![192, 0, 2, i as u8]) } });
        }
    }
    AMsg { id: 9, qr: true, opcode: 0, aa: false, tc: false, rd: true, ra: true, ad: false, cd: false, rcode,
           qname: q.name.clone(), qtype: q.qtype, qclass: 1, secs, edns: None }
}

fn ttls_json(t: &[Vec<u32>; 3]) -> Value {
    Value::Array(t.iter().flat_map(|s| s.iter().map(|x| pair(*x))).collect())
}

async fn run(scen: Vec<Value>, out: &mut Trace, seed: u64) {
    let mut rng = Rng::new(seed);
    let names: Vec<Vec<Vec<u8>>> = vec![
        vec![b"www".to_vec(), b"example".to_vec(), b"com".to_vec()],
        vec![b"WWW".to_vec(), b"Example".to_vec(), b"com".to_vec()],
        vec![b"mail".to_vec(), b"example".to_vec(), b"com".to_vec()],
        vec![b"example".to_vec(), b"com".to_vec()],
        vec![],
    ];
    let vecs: Vec<[Vec<u32>; 3]> = vec![
        [vec![1], vec![], vec![]],
        [vec![2], vec![1], vec![]],
        [vec![3, 3], vec![], vec![2]],
        [vec![2], vec![], vec![0]],
        [vec![65536], vec![2], vec![]],
        [vec![0xffff_ffff], vec![], vec![]],
        [vec![0xffff_ffff, 5], vec![0x8000_0000], vec![0x7fff_ffff]],
        [vec![300], vec![3600], vec![60, 61]],
        [vec![], vec![30], vec![]],
        [vec![], vec![], vec![]],
        [vec![0], vec![], vec![]],
        [vec![10], vec![10], vec![10]],
    ];
    let mut t_ms: u64 = 0;
    for (si, sc) in scen.iter().enumerate() {
        let cache = erbium::dns::verif::VerifCache::new();
        out.emit(json!({"ev":"reset","sc":si,"t":t_ms}));
        for step in sc["steps"].as_array().unwrap() {
            let q = Q { name: names[step["name"].as_u64().unwrap_or(0) as usize % names.len()].clone(),
                        qtype: step["qtype"].as_u64().unwrap_or(1) as u16,
                        dobit: step["do"].as_bool().unwrap_or(false), cd: step["cd"].as_bool().unwrap_or(false), ad: step["ad"].as_bool().unwrap_or(false) };
            match step["op"].as_str().unwrap() {
                "ins" => {
                    let v = &vecs[step["vec"].as_u64().unwrap() as usize % vecs.len()];
                    let qp = q.pkt();
                    // the response code of the upstream reply must not matter: any reply lives as long as its records say
                    let rp = to_pkt(&reply(&q, v, step["rcode"].as_u64().unwrap_or(0) as u16));
                    let r = aguard(cache.insert(&qp, &rp)).await;
                    out.emit(json!({"ev":"ins","k":q.key(),"x":q.exact(),"ttls":ttls_json(v),"t":t_ms,"outcome": if r.is_ok() {"ok"} else {"panic"},
                                    "cdparsed": qp.cd, "doparsed": qp.edns_do}));
                }
                "get" => {
                    let qp = q.pkt();
                    let r = aguard(cache.lookup(&qp)).await;
                    let (outcome, hit, served) = match r {
                        Ok(Some(Ok(p))) => ("ok", true, Value::Array(p.answer.iter().chain(p.nameserver.iter()).chain(p.additional.iter()).map(|rr| pair(rr.ttl)).collect())),
                        Ok(Some(Err(_))) => ("ok", true, json!([])),
                        Ok(None) => ("ok", false, json!([])),
                        Err(_) => ("panic", false, json!([])),
                    };
                    out.emit(json!({"ev":"get","k":q.key(),"x":q.exact(),"t":t_ms,"outcome":outcome,"hit":hit,"served":served}));
                }
                "adv" => {
                    let d = step["ms"].as_u64().unwrap();
                    tokio::time::advance(std::time::Duration::from_millis(d)).await;
                    t_ms += d;
                    out.emit(json!({"ev":"adv","ms":d,"t":t_ms}));
                }
                "gc" => {
                    let left = aguard(cache.expire()).await.unwrap_or(usize::MAX);
                    out.emit(json!({"ev":"gc","t":t_ms,"left":left}));
                }
                _ => {}
            }
        }
        let _ = rng.next();
    }
}

/// a panic inside awaited code under test is data
async fn aguard<F: std::future::Future>(f: F) -> Result<F::Output, String> {
    use futures::FutureExt as _;
    match std::panic::AssertUnwindSafe(f).catch_unwind().await {
        Ok(v) => Ok(v),
        Err(_) => Err(LAST_PANIC.with(|p| p.borrow().clone())),
    }
}

pub fn main(args: &[String]) {
    let scen = read_ndjson(&arg(args, "--scenarios").expect("--scenarios"));
    let mut out = Trace::create(&arg(args, "--out").expect("--out"));
    let seed = arg_u64(args, "--seed", 1);
    quiet_panics();
    let rt = tokio::runtime::Builder::new_current_thread().enable_all().start_paused(true).build().unwrap();
    rt.block_on(async {
        run_inline(scen, &mut out, seed).await;
    });
    let n = out.finish();
    eprintln!("dnscache: {} events", n);
}

async fn run_inline(scen: Vec<Value>, out: &mut Trace, seed: u64) {
    run(scen, out, seed).await
}
