//! C05 driver (function level): every network-facing decoder and the accessors
//! that run on their results, fed with (a) the boundary mutations enumerated by
//! TLC from spec/WireGrammar.tla applied to valid seed packets, (b) every
//! truncation point, (c) seeded random byte strings.  A panic is data.
use crate::dnswalk::build_query;
use crate::util::*;
use serde_json::{Value, json};

pub fn seeds() -> Vec<(&'static str, Vec<u8>)> {
    let mut v = vec![];
    // DHCP: DISCOVER with a handful of options incl. client-id, host name, parameter list, option 121, 119
    let mut d = vec![1u8, 1, 6, 0, 0x12, 0x34, 0x56, 0x78, 0, 0, 0x80, 0];
    d.extend([0u8; 16]);
    d.extend([2, 0, 0, 0, 0, 1]);
    d.extend([0u8; 10]);
    d.extend([0u8; 192]);
    d.extend([0x63, 0x82, 0x53, 0x63]);
    d.extend([53, 1, 1, 61, 7, 1, 2, 0, 0, 0, 0, 1, 12, 4, b'h', b'o', b's', b't', 55, 4, 1, 3, 6, 121, 50, 4, 192, 0, 2, 9,
              121, 9, 24, 192, 0, 2, 0, 192, 0, 2, 1, 119, 9, 3, b'f', b'o', b'o', 3, b'c', b'o', b'm', 0, 57, 2, 5, 220, 255]);
    v.push(("dhcp", d));
    // DNS query with EDNS: NSID, COOKIE (client+server), EDE, client subnet
    let q = build_query(0x4242, true, false, false, &[b"www".to_vec(), b"example".to_vec(), b"com".to_vec()], 1, 1,
                        Some((1232, true, vec![(3, vec![]), (10, (1..=24).collect()), (15, vec![0, 18, b'x']), (8, vec![0, 1, 24, 0, 192, 0, 2])])));
    v.push(("dnsq", q));
    // DNS reply with compression pointers and several rdata types (built by hand)
    let mut r = vec![0x42, 0x42, 0x81, 0x80, 0, 1, 0, 3, 0, 1, 0, 1];
    r.extend([3, b'w', b'w', b'w', 7, b'e', b'x', b'a', b'm', b'p', b'l', b'e', 3, b'c', b'o', b'm', 0, 0, 1, 0, 1]);
    r.extend([0xc0, 12, 0, 5, 0, 1, 0, 0, 1, 44, 0, 6, 3, b'w', b'e', b'b', 0xc0, 16]); // CNAME web.example.com
    r.extend([0xc0, 33, 0, 1, 0, 1, 0, 0, 0, 60, 0, 4, 192, 0, 2, 1]);
    r.extend([0xc0, 16, 0, 15, 0, 1, 0, 0, 0, 60, 0, 9, 0, 10, 4, b'm', b'a', b'i', b'l', 0xc0, 16]); // MX
    r.extend([0xc0, 16, 0, 6, 0, 1, 0, 0, 0, 60, 0, 34, 2, b'n', b's', 0xc0, 16, 4, b'r', b'o', b'o', b't', 0xc0, 16, 0, 0, 0, 1, 0, 0, 0, 2, 0, 0, 0, 3, 0, 0, 0, 4, 0, 0, 0, 5]);
    r.extend([0, 0, 41, 4, 208, 0, 0, 0, 0, 0, 0]);
    v.push(("dnsr", r));
    // ICMPv6 router solicitation with source link-layer address, and a router advertisement
    v.push(("rs", vec![133, 0, 0, 0, 0, 0, 0, 0, 1, 1, 2, 0, 0, 0, 0, 1]));
    v.push(("ra", vec![134, 0, 0, 0, 64, 0x40, 7, 8, 0, 0, 0, 0, 0, 0, 0, 0, 1, 1, 2, 0, 0, 0, 0, 1, 5, 1, 0, 0, 0, 0, 5, 220,
                       3, 4, 64, 0xc0, 0, 0x27, 0x8d, 0, 0, 9, 0x3a, 0x80, 0, 0, 0, 0, 0x20, 1, 0x0d, 0xb8, 0, 0, 0, 1, 0, 0, 0, 0, 0, 0, 0, 0,
                       25, 3, 0, 0, 0, 0, 2, 88, 0x20, 1, 0x0d, 0xb8, 0, 0, 0, 0, 0, 0, 0, 0, 0, 0, 0, 0x53]));
    // LLDP frame body: chassis id, port id, ttl, port description, system name, capabilities, management address, org specific, end
    let mut l = vec![];
    l.extend([0x02, 7, 4, 2, 0, 0, 0, 0, 1]);
    l.extend([0x04, 4, 5, b'e', b't', b'h']);
    l.extend([0x06, 2, 0, 120]);
    l.extend([0x08, 3, b'u', b'p', b'1']);
    l.extend([0x0a, 4, b'h', b'o', b's', b't']);
    l.extend([0x0e, 4, 0, 20, 0, 20]);
    l.extend([0x10, 12, 5, 1, 192, 0, 2, 1, 2, 0, 0, 0, 3, 0]);
    l.extend([0xfe, 6, 0, 0x12, 0x0f, 1, 3, 0]);
    l.extend([0, 0]);
    v.push(("lldp", l));
    v
}

/// Per-process state of the handlers under test: what a running service keeps between packets.
pub struct Handlers {
    rt: tokio::runtime::Runtime,
    pool: erbium::dhcp::pool::Pool,
    conf: erbium::config::SharedConfig,
}

const DHCP_CONF: &str = "addresses: [192.0.2.1/22]\ndns-servers: [192.0.2.53]\ndns-search: [example.com]\n";

impl Handlers {
    pub fn new() -> Handlers {
        let rt = tokio::runtime::Builder::new_current_thread().enable_all().start_paused(true).build().unwrap();
        let pool = erbium::dhcp::pool::Pool::new_in_memory().expect("pool");
        let conf = erbium::config::verif_load_config_from_string(DHCP_CONF).expect("config");
        Handlers { rt, pool, conf }
    }

    /// what DhcpService::recvdhcp does with a datagram, minus the sockets
    fn dhcp(&mut self, b: &[u8]) -> &'static str {
        use erbium::dhcp::dhcppkt;
        let p = match dhcppkt::parse(b) {
            Ok(p) => p,
            Err(e) => {
                let _ = format!("{} {}", e, e.get_variant_name());
                return "err";
            }
        };
        fn log_options(p: &dhcppkt::Dhcp) {
            let _ = String::from_utf8_lossy(&p.options.get_option::<Vec<u8>>(&dhcppkt::OPTION_HOSTNAME).unwrap_or_default()).to_string();
            for (k, v) in p.options.other.iter().filter(|(k, _)| **k != dhcppkt::OPTION_MSGTYPE && **k != dhcppkt::OPTION_PARAMLIST) {
                let _ = format!("{k}({})", k.get_type().and_then(|x| x.decode(v)).map(|x| format!("{}", x)).unwrap_or_default());
            }
        }
        // log_pkt
        let _ = p.options.get_messagetype().map(|x| x.to_string());
        log_options(&p);
        let _ = p.options.get_option::<Vec<u8>>(&dhcppkt::OPTION_PARAMLIST)
            .map(|v| v.iter().map(|&x| dhcppkt::DhcpOption::new(x)).map(|o| o.to_string()).collect::<Vec<String>>().join(" "));
        let _ = format!("{:?}", p);
        let _ = p.get_client_id();
        let req = erbium::dhcp::DHCPRequest { pkt: p, serverip: "192.0.2.1".parse().unwrap(), ifindex: 1, if_mtu: Some(1500), if_router: None };
        let conf = self.conf.clone();
        let lockedconf = self.rt.block_on(conf.read());
        match erbium::dhcp::handle_pkt(&mut self.pool, &req, Default::default(), &lockedconf) {
            Ok(reply) => {
                let _ = reply.options.get_serverid();
                let _ = reply.options.get_messagetype().map(|x| x.to_string());
                let _ = reply.options.get_option::<u32>(&dhcppkt::OPTION_LEASETIME);
                log_options(&reply);
                if let Some(chaddr) = erbium::dhcp::verif_reply_hwaddr(&reply.chaddr) {
                    use erbium_net::addr::WithPort as _;
                    let _ = req.pkt.get_broadcast_flag();
                    let replybuf = reply.serialise();
                    let src: std::net::Ipv4Addr = "192.0.2.1".parse().unwrap();
                    let _ = erbium_net::packet::Fragment::new_udp4(
                        *src.with_port(67).as_sockaddr_in().unwrap(),
                        &[2, 0, 0, 0, 0, 9],
                        *reply.yiaddr.with_port(68).as_sockaddr_in().unwrap(),
                        &chaddr,
                        erbium_net::packet::Tail::Payload(&replybuf),
                    )
                    .flatten();
                }
                "ok"
            }
            Err(e) => {
                let _ = format!("{}", e);
                "ok"
            }
        }
    }

    /// decode + everything the listener and the cache do with a decoded message that needs no socket
    fn dns(&mut self, b: &[u8], reply: bool) -> &'static str {
        let p = match erbium::dns::verif::parse(b) {
            Ok(p) => p,
            Err(_) => return "err",
        };
        let _ = format!("{:?}", p);
        let _ = p.status();
        let _ = p.get_expiry();
        if let Some(e) = &p.edns {
            let _ = e.get_nsid();
            let _ = e.get_cookie();
            let _ = e.get_extended_dns_error();
        }
        let _ = p.serialise();
        for size in [512usize, 513, 1232, 65535] {
            let _ = p.serialise_with_size(size);
        }
        if reply {
            // what the cache does with an upstream reply, now and later
            self.rt.block_on(async {
                let cache = erbium::dns::verif::VerifCache::new();
                let _ = cache.insert(&p, &p).await;
                for step in [0u64, 1, 5, 60, 3600, 86400] {
                    tokio::time::advance(std::time::Duration::from_secs(step)).await;
                    let _ = cache.lookup(&p).await;
                }
                let _ = cache.expire().await;
            });
        }
        "ok"
    }

    /// run every handler that applies to this kind of input; returns (outcome, detail)
    pub fn feed(&mut self, kind: &str, b: &[u8]) -> (String, String) {
        let r = guarded(|| -> &'static str {
            match kind {
                "dhcp" => self.dhcp(b),
                "dnsq" => self.dns(b, false),
                "dnsr" => self.dns(b, true),
                "rs" | "ra" => match erbium::radv::icmppkt::parse(b) {
                    Ok(p) => {
                        let _ = format!("{:?}", p);
                        "ok"
                    }
                    Err(_) => "err",
                },
                "lldp" => {
                    use erbium::pktparser::Deserialise as _;
                    match erbium::lldp::lldppkt::LldpPacket::from_wire(&mut erbium::pktparser::Buffer::new(b)) {
                        Ok(p) => {
                            let _ = format!("{} {:?}", p, p);
                            "ok"
                        }
                        Err(_) => "err",
                    }
                }
                _ => "err",
            }
        });
        match r {
            Ok(o) => (o.to_string(), String::new()),
            Err(p) => ("panic".to_string(), p),
        }
    }

    /// a valid request must still be served: DISCOVER -> a reply with an address, query -> decoded and cacheable
    pub fn probe(&mut self, kind: &str) -> (bool, String) {
        let seeds = seeds();
        let seed = |k: &str| seeds.iter().find(|s| s.0 == k).unwrap().1.clone();
        let r = guarded(|| match kind {
            "dhcp" => {
                let p = erbium::dhcp::dhcppkt::parse(&seed("dhcp")).map_err(|e| e.to_string())?;
                let req = erbium::dhcp::DHCPRequest { pkt: p, serverip: "192.0.2.1".parse().unwrap(), ifindex: 1, if_mtu: Some(1500), if_router: None };
                let conf = self.conf.clone();
                let lockedconf = self.rt.block_on(conf.read());
                let reply = erbium::dhcp::handle_pkt(&mut self.pool, &req, Default::default(), &lockedconf).map_err(|e| e.to_string())?;
                if reply.yiaddr.is_unspecified() { Err("no address".to_string()) } else { Ok(()) }
            }
            _ => {
                let p = erbium::dns::verif::parse(&seed("dnsr"))?;
                self.rt.block_on(async {
                    let cache = erbium::dns::verif::VerifCache::new();
                    let _ = cache.insert(&p, &p).await;
                    match cache.lookup(&p).await {
                        Some(Ok(_)) => Ok(()),
                        _ => Err("not cached".to_string()),
                    }
                })
            }
        });
        match r {
            Ok(Ok(())) => (true, String::new()),
            Ok(Err(e)) => (false, e),
            Err(p) => (false, p),
        }
    }
}

fn body(len: usize, fill: &str) -> Vec<u8> {
    match fill {
        "zero" => vec![0; len],
        "ff" => vec![0xff; len],
        "inc" => (0..len).map(|i| i as u8).collect(),
        _ => vec![len as u8; len],
    }
}

fn ptr(at: usize) -> [u8; 2] {
    [0xc0 | ((at >> 8) as u8 & 0x3f), at as u8]
}

/// A DNS message assembled around hostile parts.  `tail` is appended after the records and is
/// not counted anywhere (helper names that pointers refer to live there).
pub struct DnsParts {
    pub qname: Vec<u8>,
    pub secs: [Vec<Vec<u8>>; 3],
    pub tail: Vec<u8>,
    pub cut_after: Option<usize>, // truncate the message at this absolute offset
}

impl DnsParts {
    pub fn new() -> DnsParts {
        DnsParts { qname: vec![1, b'h', 7, b'e', b'x', b'a', b'm', b'p', b'l', b'e', 0], secs: Default::default(), tail: vec![], cut_after: None }
    }
    /// offset at which the next record of section `s` would start
    pub fn offset_of_next(&self, s: usize) -> usize {
        12 + self.qname.len() + 4 + self.secs.iter().take(s + 1).map(|v| v.iter().map(|r| r.len()).sum::<usize>()).sum::<usize>()
    }
    pub fn records_len(&self) -> usize {
        self.secs.iter().map(|v| v.iter().map(|r| r.len()).sum::<usize>()).sum()
    }
    /// everything after the question (for a scripted upstream that copies the client's question)
    pub fn after_question(&self) -> Vec<u8> {
        let mut b = vec![];
        for s in &self.secs {
            for r in s {
                b.extend(r);
            }
        }
        b.extend(&self.tail);
        b
    }
    pub fn counts(&self) -> [u16; 3] {
        [self.secs[0].len() as u16, self.secs[1].len() as u16, self.secs[2].len() as u16]
    }
    pub fn bytes(&self, id: u16, flags: u16) -> Vec<u8> {
        let mut b = vec![];
        b.extend(id.to_be_bytes());
        b.extend(flags.to_be_bytes());
        b.extend(1u16.to_be_bytes());
        for c in self.counts() {
            b.extend(c.to_be_bytes());
        }
        b.extend(&self.qname);
        b.extend([0, 1, 0, 1]);
        b.extend(self.after_question());
        if let Some(n) = self.cut_after {
            b.truncate(n);
        }
        b
    }
}

fn record(owner: &[u8], rtype: u16, rdlen: u16, rdata: &[u8]) -> Vec<u8> {
    let mut r = owner.to_vec();
    r.extend(rtype.to_be_bytes());
    r.extend(1u16.to_be_bytes());
    r.extend(60u32.to_be_bytes());
    r.extend(rdlen.to_be_bytes());
    r.extend(rdata);
    r
}

/// the octets of a hostile name that will sit at absolute offset `at`; `helper_at` is where the
/// message's uncounted tail starts (helper names go there); returns (name octets, tail octets, cut)
fn name_shape(shape: &str, at: usize, helper_at: usize) -> (Vec<u8>, Vec<u8>, bool) {
    let mut n = vec![];
    let mut tail = vec![];
    let mut cut = false;
    match shape {
        "self" => n.extend(ptr(at)),
        "loop1" => {
            n.extend([3, b'w', b'w', b'w']);
            n.extend(ptr(at));
        }
        "loop2" => {
            n.extend([1, b'a', 1, b'b']);
            n.extend(ptr(at + 2));
        }
        "loop3" => {
            n.extend([1, b'a']);
            n.extend(ptr(helper_at));
            tail.extend([1, b'b']);
            tail.extend(ptr(at));
        }
        "fwd" => {
            n.extend(ptr(helper_at));
            tail.extend([3, b'f', b'w', b'd', 0]);
        }
        "hdrptr" => n.extend(ptr(0)),
        "oob" => n.extend(ptr(0x3fff)),
        s if s.starts_with("chain") => {
            let depth: usize = s[5..].parse().unwrap();
            tail.extend([1, b'z', 0]);
            let mut last = helper_at;
            for _ in 1..depth {
                let here = helper_at + tail.len();
                tail.extend(ptr(last));
                last = here;
            }
            n.extend(ptr(last));
        }
        "label63" => {
            n.push(63);
            n.extend([b'a'; 63]);
            n.push(0);
        }
        "label64" => {
            n.push(64);
            n.extend([b'a'; 64]);
            n.push(0);
        }
        "label128" => {
            n.push(128);
            n.extend([b'a'; 128]);
            n.push(0);
        }
        "name255" | "name256" | "name1000" => {
            let want: usize = shape[4..].parse().unwrap();
            while n.len() + 1 < want {
                let l = (want - 1 - n.len() - 1).min(63);
                if l == 0 {
                    break;
                }
                n.push(l as u8);
                n.extend(vec![b'n'; l]);
            }
            n.push(0);
        }
        "runsout" => {
            n.extend([10, b'a', b'b']);
            cut = true;
        }
        "halfptr" => {
            n.push(0xc0);
            cut = true;
        }
        "empty" => n.push(0),
        "ptrtoroot" => n.extend(ptr(12 + 10)), // the root label of the default question name
        "ptrtoqtype" => n.extend(ptr(12 + 11)),
        _ => n.push(0),
    }
    (n, tail, cut)
}

/// consistent packets from a grammar case: returns (handler kind, bytes) pairs
pub fn build(c: &Value) -> Vec<(&'static str, Vec<u8>)> {
    let fmt = c["fmt"].as_str().unwrap_or("");
    let k = c["k"].as_str().unwrap_or("");
    let seeds = seeds();
    let seed = |k: &str| seeds.iter().find(|s| s.0 == k).unwrap().1.clone();
    let u = |f: &str| c[f].as_u64().unwrap_or(0) as usize;
    let st = |f: &str| c[f].as_str().unwrap_or("");
    let mut out = vec![];
    match (k, fmt) {
        ("item", "dhcp") => {
            let (code, len) = (u("code") as u8, u("len"));
            let mut b = seed("dhcp")[..240].to_vec();
            b.extend([53, 1, 1]);
            b.push(code);
            b.push(len as u8);
            b.extend(body(len, st("fill")));
            if st("lie") == "over" {
                // the option's length runs past the end of the packet
                let n = b.len() - len.div_ceil(2);
                b.truncate(n);
            } else {
                b.extend([55, 3, 1, 3, code, 255]);
            }
            out.push(("dhcp", b));
        }
        ("pair", "dhcp") => {
            let mut b = seed("dhcp")[..240].to_vec();
            let area = |n: usize| -> Vec<u8> {
                match st("area") {
                    "zero" => vec![0; n],
                    "ff" => vec![0xff; n],
                    "opts" => {
                        let mut v = vec![12, 3, b'a', b'b', b'c', 61, 3, 1, 2, 3, 255];
                        v.resize(n, 0);
                        v
                    }
                    _ => {
                        // options up to the very edge of the field, no end marker
                        let mut v = vec![];
                        while v.len() + 6 <= n {
                            v.extend([12, 4, b'w', b'x', b'y', b'z']);
                        }
                        let rest = n - v.len();
                        if rest >= 2 {
                            v.push(61);
                            v.push((rest - 2) as u8);
                            v.extend(vec![7; rest - 2]);
                        } else {
                            v.resize(n, 12);
                        }
                        v
                    }
                }
            };
            let sname = area(64);
            let file = area(128);
            b[44..108].copy_from_slice(&sname);
            b[108..236].copy_from_slice(&file);
            b.extend([53, 1, 1]);
            for (cf, lf) in [("c1", "l1"), ("c2", "l2")] {
                let code = u(cf) as u8;
                b.push(code);
                if code != 0 && code != 255 {
                    b.push(u(lf) as u8);
                    b.extend(body(u(lf), "inc"));
                }
            }
            if u("over") > 0 {
                b.extend([52, 1, u("over") as u8]);
            }
            b.push(255);
            out.push(("dhcp", b));
        }
        ("item", "edns") => {
            let (code, len) = (u("code") as u16, u("len"));
            let mut q = build_query(7, true, false, false, &[b"x".to_vec(), b"example".to_vec()], 1, 1, Some((1232, false, vec![(code, body(len, st("fill")))])));
            let n = q.len();
            // the option's own length field is the last-but-body 2 octets
            let lpos = n - len - 2;
            match st("lie") {
                "over" => {
                    let v = (len as u16 + 9).to_be_bytes();
                    q[lpos] = v[0];
                    q[lpos + 1] = v[1];
                }
                "under" => {
                    let v = (len as u16 / 2).to_be_bytes();
                    q[lpos] = v[0];
                    q[lpos + 1] = v[1];
                }
                _ => {}
            }
            out.push(("dnsq", q.clone()));
            let mut r = q;
            r[2] |= 0x80; // the same as a reply from upstream
            out.push(("dnsr", r));
        }
        ("item", "nd") => {
            let (code, len) = (u("code") as u8, u("len"));
            for (k, hdr) in [("rs", vec![133u8, 0, 0, 0, 0, 0, 0, 0]), ("ra", vec![134u8, 0, 0, 0, 64, 0, 7, 8, 0, 0, 0, 0, 0, 0, 0, 0])] {
                let mut b = hdr;
                b.push(code);
                b.push(if len == 0 { 0 } else { ((2 + len) / 8) as u8 } + if st("lie") == "over" { 3 } else { 0 });
                b.extend(body(len, st("fill")));
                out.push((k, b));
            }
        }
        ("item", "lldp") => {
            let (code, len) = (u("code") as u16, u("len"));
            let mut b = vec![0x02, 7, 4, 2, 0, 0, 0, 0, 1, 0x04, 4, 5, b'e', b't', b'h', 0x06, 2, 0, 120];
            let tl: u16 = (code << 9) | (len as u16 & 0x1ff);
            b.extend(tl.to_be_bytes());
            if st("lie") == "over" {
                b.extend(body(len / 2, st("fill")));
            } else {
                b.extend(body(len, st("fill")));
                b.extend([0, 0]);
            }
            out.push(("lldp", b));
        }
        ("mgmt", "lldp") => {
            let (alen, olen) = (u("alen"), u("olen"));
            let mut v = vec![alen as u8];
            v.extend((0..alen).map(|i| if i == 0 { 1 } else { i as u8 }));
            v.push(2);
            v.extend([0, 0, 0, 3]);
            v.push(olen as u8);
            v.extend(vec![0x2b; olen]);
            let mut declared = v.len();
            match st("lie") {
                "over" => declared += 5,
                "under" => declared -= declared.min(3),
                _ => {}
            }
            if declared > 511 {
                declared = 511;
            }
            if v.len() > 511 {
                v.truncate(511);
            }
            let mut b = vec![0x02, 7, 4, 2, 0, 0, 0, 0, 1, 0x04, 4, 5, b'e', b't', b'h', 0x06, 2, 0, 120];
            let tl: u16 = (8 << 9) | (declared as u16 & 0x1ff);
            b.extend(tl.to_be_bytes());
            b.extend(v);
            b.extend([0, 0]);
            out.push(("lldp", b));
        }
        ("hdr", "dhcphdr") => {
            let mut b = seed("dhcp");
            let v = u("val") as u8;
            match st("field") {
                "op" => b[0] = v,
                "htype" => b[1] = v,
                "hlen" => b[2] = v,
                "hops" => b[3] = v,
                "flags" => b[10] = v,
                _ => b[236] = v,
            }
            out.push(("dhcp", b));
        }
        ("hdr", "dnshdr") => {
            for k in ["dnsq", "dnsr"] {
                let mut b = seed(k);
                let v = (u("val") as u16).to_be_bytes();
                let off = match st("field") {
                    "flags" => 2,
                    "qdcount" => 4,
                    "ancount" => 6,
                    "nscount" => 8,
                    _ => 10,
                };
                b[off] = v[0];
                b[off + 1] = v[1];
                out.push((k, b));
            }
        }
        ("hdr", "ndhdr") => {
            for k in ["rs", "ra"] {
                let mut b = seed(k);
                let v = u("val") as u8;
                match st("field") {
                    "type" => b[0] = v,
                    "code" => b[1] = v,
                    "hop" => b[4] = v,
                    _ => b[5] = v,
                }
                out.push((k, b));
            }
        }
        (_, "dns") => {
            if let Some(p) = dns_parts(c) {
                out.push(("dnsq", p.bytes(0x0707, 0x0100)));
                out.push(("dnsr", p.bytes(0x0707, 0x8180)));
            }
        }
        _ => {}
    }
    out
}

/// the hostile parts of a DNS grammar case (kinds name / rr / opt)
pub fn dns_parts(c: &Value) -> Option<DnsParts> {
    let k = c["k"].as_str()?;
    let u = |f: &str| c[f].as_u64().unwrap_or(0) as usize;
    let st = |f: &str| c[f].as_str().unwrap_or("");
    let mut p = DnsParts::new();
    let back = ptr(12).to_vec(); // a well-behaved owner: pointer to the question name
    match k {
        "name" => {
            let pos = st("pos");
            let shape = st("shape");
            // a harmless record in front so that non-question positions are not first
            let filler = record(&back, 1, 4, &[192, 0, 2, 7]);
            let (sec, pre, post, rtype): (usize, Vec<u8>, Vec<u8>, u16) = match pos {
                "qname" => (9, vec![], vec![], 0),
                "owner-an" => (0, vec![], vec![], 1),
                "owner-ns" => (1, vec![], vec![], 1),
                "owner-ar" => (2, vec![], vec![], 1),
                "cname" => (0, vec![], vec![], 5),
                "ns" => (1, vec![], vec![], 2),
                "ptr" => (0, vec![], vec![], 12),
                "mx" => (0, vec![0, 10], vec![], 15),
                "afsdb" => (0, vec![0, 1], vec![], 18),
                "rt" => (0, vec![0, 1], vec![], 21),
                "soa-mname" => (1, vec![], [vec![0], vec![0; 20]].concat(), 6),
                "soa-rname" => (1, vec![0], vec![0; 20], 6),
                "rp-mbox" => (0, vec![], vec![0], 17),
                "rp-txt" => (0, vec![0], vec![], 17),
                _ => (0, vec![0, 1, 0, 1, 0, 0, 0], vec![], 35), // naptr
            };
            if pos == "qname" {
                let helper_at = 12; // placeholder, fixed below once the length is known
                let (n0, _, _) = name_shape(shape, 12, helper_at);
                let helper_at = 12 + n0.len() + 4;
                let (n, tail, cut) = name_shape(shape, 12, helper_at);
                p.qname = n;
                p.tail = tail;
                if cut {
                    p.cut_after = Some(12 + p.qname.len());
                }
            } else if pos.starts_with("owner") {
                p.secs[0].push(filler);
                let at = p.offset_of_next(sec);
                let (n0, _, _) = name_shape(shape, at, at);
                let helper_at = at + n0.len() + 10 + 4;
                let (n, tail, cut) = name_shape(shape, at, helper_at);
                p.secs[sec].push(record(&n, rtype, 4, &[192, 0, 2, 1]));
                p.tail = tail;
                if cut {
                    p.cut_after = Some(at + n.len());
                }
            } else {
                p.secs[0].push(filler);
                let at = p.offset_of_next(sec) + back.len() + 10 + pre.len();
                let (n0, _, _) = name_shape(shape, at, at);
                let helper_at = at + n0.len() + post.len();
                let (n, tail, cut) = name_shape(shape, at, helper_at);
                let rdata = [pre.clone(), n.clone(), post.clone()].concat();
                p.secs[sec].push(record(&back, rtype, rdata.len() as u16, &rdata));
                p.tail = tail;
                if cut {
                    p.cut_after = Some(at + n.len());
                }
            }
        }
        "rr" => {
            let sec = match st("sec") {
                "an" => 0,
                "ns" => 1,
                _ => 2,
            };
            let len = u("len");
            let declared = match st("lie") {
                "over" => len + 7,
                "under" => len / 2,
                _ => len,
            };
            p.secs[sec].push(record(&back, u("rtype") as u16, declared as u16, &body(len, st("fill"))));
            if st("lie") == "exact" {
                // something valid behind it, so that a mis-sized typed decoder shows up
                p.secs[2].push(record(&[0], 41, 0, &[])); // class/ttl of an OPT are free-form
            }
        }
        "opt" => {
            let owner: Vec<u8> = match st("owner") {
                "root" => vec![0],
                "name" => vec![1, b'o', 0],
                _ => back.clone(),
            };
            let mut r = owner;
            r.extend(41u16.to_be_bytes());
            r.extend((u("size") as u16).to_be_bytes());
            r.push(u("ercode") as u8);
            r.push(u("version") as u8);
            r.extend([0x80, 0]);
            r.extend([0, 0]);
            match st("where") {
                "an" => p.secs[0].push(r),
                "ns" => p.secs[1].push(r),
                "twice" => {
                    p.secs[2].push(r.clone());
                    p.secs[2].push(r);
                }
                _ => p.secs[2].push(r),
            }
        }
        _ => return None,
    }
    Some(p)
}

/// `ingest-child`: one line in ("feed <kind> <hex>" / "probe <kind>"), one JSON line out.  Runs in
/// its own process because a stack overflow or an abort cannot be caught in-process.
pub fn child_main(_args: &[String]) {
    use std::io::{BufRead, Write};
    quiet_panics();
    install_info_logger();
    let mut h = Handlers::new();
    let stdin = std::io::stdin();
    let stdout = std::io::stdout();
    for line in stdin.lock().lines() {
        let line = match line {
            Ok(l) => l,
            Err(_) => break,
        };
        let mut it = line.split(' ');
        let cmd = it.next().unwrap_or("");
        let kind = it.next().unwrap_or("");
        let v = if cmd == "probe" {
            let (ok, d) = h.probe(kind);
            json!({"answered": ok, "detail": d})
        } else {
            let b = unhex(it.next().unwrap_or(""));
            let (o, d) = h.feed(kind, &b);
            json!({"outcome": o, "detail": d})
        };
        let mut out = stdout.lock();
        let _ = writeln!(out, "{}", v);
        let _ = out.flush();
    }
}

pub fn main(args: &[String]) {
    let cases = read_ndjson(&arg(args, "--cases").expect("--cases"));
    let outp = arg(args, "--out").expect("--out");
    let mut out = Trace::create(&outp);
    let mut rng = Rng::new(arg_u64(args, "--seed", 1));
    let nrand = arg_u64(args, "--rand", 2000);
    let mut w = Worker::spawn("ingest-child", &format!("{}.child-stderr", outp), 20, 0);
    let seeds = seeds();
    let mut nfeeds = 0u64;
    let mut feed = |w: &mut Worker, out: &mut Trace, k: &str, b: &[u8], genv: Value| {
        let r = w.call(&format!("feed {} {}", k, hex(b)));
        let o = r["outcome"].as_str().unwrap_or("garbled").to_string();
        let bad = o != "ok" && o != "err";
        out.emit(json!({"ev":"feed","h":k,"gen":genv,"len":b.len(),"outcome":o,"detail":r["detail"],"bytes": if bad { json!(hex(b)) } else { json!("") }}));
        nfeeds += 1;
        if nfeeds % 500 == 0 {
            for pk in ["dhcp", "dns"] {
                let r = w.call(&format!("probe {}", pk));
                out.emit(json!({"ev":"probe","h":pk,"after":nfeeds,"answered":r["answered"],"detail":r["detail"]}));
            }
        }
    };
    for (k, s) in &seeds {
        feed(&mut w, &mut out, k, s, json!({"k":"seed"}));
    }
    // (a) grammar-derived structured cases (spec/WireGrammar.tla)
    for c in &cases {
        for (k, b) in build(c) {
            feed(&mut w, &mut out, k, &b, c.clone());
        }
    }
    // (b) every truncation point and boundary values at every offset of every seed
    for (k, s) in &seeds {
        for n in 0..s.len() {
            feed(&mut w, &mut out, k, &s[..n], json!({"k":"trunc","n":n}));
        }
        for off in 0..s.len() {
            for val in [0u8, 1, 0x3f, 0x40, 0x7f, 0x80, 0xbf, 0xc0, 0xfe, 0xff] {
                if s[off] == val {
                    continue;
                }
                let mut b = s.clone();
                b[off] = val;
                feed(&mut w, &mut out, k, &b, json!({"k":"octet","off":off,"val":val}));
            }
        }
    }
    // (c) random byte strings and random multi-mutations of the seeds
    for i in 0..nrand {
        let (k, s) = &seeds[(i % seeds.len() as u64) as usize];
        let b = if i % 3 == 0 {
            rng.bytes_of(&[0, 1, 2, 11, 12, 13, 63, 64, 239, 240, 241, 300, 1500, 65535])
        } else {
            let mut b = s.clone();
            for _ in 0..1 + rng.below(4) {
                if b.is_empty() {
                    break;
                }
                let j = rng.below(b.len() as u64) as usize;
                match rng.below(4) {
                    0 => b[j] = rng.next() as u8,
                    1 => b[j] = *rng.pick(&[0u8, 0xff, 0xc0, 0x80, 1]),
                    2 => b.truncate(j),
                    _ => b.insert(j, rng.next() as u8),
                }
            }
            b
        };
        feed(&mut w, &mut out, k, &b, json!({"k":"rand","i":i}));
    }
    for pk in ["dhcp", "dns"] {
        let r = w.call(&format!("probe {}", pk));
        out.emit(json!({"ev":"probe","h":pk,"after":nfeeds,"answered":r["answered"],"detail":r["detail"]}));
    }
    let _ = w.child.kill();
    let n = out.finish();
    eprintln!("ingest: {} events, {} child restarts", n, w.restarts);
}
