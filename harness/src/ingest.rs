//! C05 driver (function level): every network-facing decoder and the accessors
//! that run on their results, fed with (a) the boundary mutations enumerated by
//! TLC from spec/WireGrammar.tla applied to valid seed packets, (b) every
//! truncation point, (c) seeded random byte strings.  A panic is data.
use crate::dnswalk::build_query;
use crate::util::*;
use serde_json::{Value, json};

pub fn seeds() -> Vec<(&'static str, Vec<u8>)> {
    let mut v = vec![];
    // DHCP: DISCOVER with a handful of options incl. client-id, host name, parameter list, option 121, 119
    let mut d = vec![1u8, 1, 6, 0, 0x12, 0x34, 0x56, 0x78, 0, 0, 0x80, 0];
    d.extend([0u8; 16]);
    d.extend([2, 0, 0, 0, 0, 1]);
    d.extend([0u8; 10]);
    d.extend([0u8; 192]);
    d.extend([0x63, 0x82, 0x53, 0x63]);
    d.extend([53, 1, 1, 61, 7, 1, 2, 0, 0, 0, 0, 1, 12, 4, b'h', b'o', b's', b't', 55, 4, 1, 3, 6, 121, 50, 4, 192, 0, 2, 9,
              121, 9, 24, 192, 0, 2, 0, 192, 0, 2, 1, 119, 9, 3, b'f', b'o', b'o', 3, b'c', b'o', b'm', 0, 57, 2, 5, 220, 255]);
    v.push(("dhcp", d));
    // DNS query with EDNS: NSID, COOKIE (client+server), EDE, client subnet
    let q = build_query(0x4242, true, false, false, &[b"www".to_vec(), b"example".to_vec(), b"com".to_vec()], 1, 1,
                        Some((1232, true, vec![(3, vec![]), (10, (1..=24).collect()), (15, vec![0, 18, b'x']), (8, vec![0, 1, 24, 0, 192, 0, 2])])));
    v.push(("dnsq", q));
    // DNS reply with compression pointers and several rdata types (built by hand)
    let mut r = vec![0x42, 0x42, 0x81, 0x80, 0, 1, 0, 3, 0, 1, 0, 1];
    r.extend([3, b'w', b'w', b'w', 7, b'e', b'x', b'a', b'm', b'p', b'l', b'e', 3, b'c', b'o', b'm', 0, 0, 1, 0, 1]);
    r.extend([0xc0, 12, 0, 5, 0, 1, 0, 0, 1, 44, 0, 6, 3, b'w', b'e', b'b', 0xc0, 16]); // CNAME web.example.com
    r.extend([0xc0, 33, 0, 1, 0, 1, 0, 0, 0, 60, 0, 4, 192, 0, 2, 1]);
    r.extend([0xc0, 16, 0, 15, 0, 1, 0, 0, 0, 60, 0, 9, 0, 10, 4, b'm', b'a', b'i', b'l', 0xc0, 16]); // MX
    r.extend([0xc0, 16, 0, 6, 0, 1, 0, 0, 0, 60, 0, 34, 2, b'n', b's', 0xc0, 16, 4, b'r', b'o', b'o', b't', 0xc0, 16, 0, 0, 0, 1, 0, 0, 0, 2, 0, 0, 0, 3, 0, 0, 0, 4, 0, 0, 0, 5]);
    r.extend([0, 0, 41, 4, 208, 0, 0, 0, 0, 0, 0]);
    v.push(("dnsr", r));
    // ICMPv6 router solicitation with source link-layer address, and a router advertisement
    v.push(("rs", vec![133, 0, 0, 0, 0, 0, 0, 0, 1, 1, 2, 0, 0, 0, 0, 1]));
    v.push(("ra", vec![134, 0, 0, 0, 64, 0x40, 7, 8, 0, 0, 0, 0, 0, 0, 0, 0, 1, 1, 2, 0, 0, 0, 0, 1, 5, 1, 0, 0, 0, 0, 5, 220,
                       3, 4, 64, 0xc0, 0, 0x27, 0x8d, 0, 0, 9, 0x3a, 0x80, 0, 0, 0, 0, 0x20, 1, 0x0d, 0xb8, 0, 0, 0, 1, 0, 0, 0, 0, 0, 0, 0, 0,
                       25, 3, 0, 0, 0, 0, 2, 88, 0x20, 1, 0x0d, 0xb8, 0, 0, 0, 0, 0, 0, 0, 0, 0, 0, 0, 0x53]));
    // LLDP frame body: chassis id, port id, ttl, port description, system name, capabilities, management address, org specific, end
    let mut l = vec![];
    l.extend([0x02, 7, 4, 2, 0, 0, 0, 0, 1]);
    l.extend([0x04, 4, 5, b'e', b't', b'h']);
    l.extend([0x06, 2, 0, 120]);
    l.extend([0x08, 3, b'u', b'p', b'1']);
    l.extend([0x0a, 4, b'h', b'o', b's', b't']);
    l.extend([0x0e, 4, 0, 20, 0, 20]);
    l.extend([0x10, 12, 5, 1, 192, 0, 2, 1, 2, 0, 0, 0, 3, 0]);
    l.extend([0xfe, 6, 0, 0x12, 0x0f, 1, 3, 0]);
    l.extend([0, 0]);
    v.push(("lldp", l));
    v
}

/// run every handler that applies to this kind of input; returns (outcome, detail)
pub fn feed(kind: &str, b: &[u8]) -> (String, String) {
    let r = guarded(|| -> &'static str {
        match kind {
            "dhcp" => match erbium::dhcp::dhcppkt::parse(b) {
                Ok(p) => {
                    // everything the service does with a decoded packet before and while replying
                    let _ = format!("{:?}", p);
                    let _ = p.get_client_id();
                    let _ = p.get_broadcast_flag();
                    let _ = (p.options.get_serverid(), p.options.get_clientid(), p.options.get_address_request(), p.options.get_messagetype(), p.options.get_hostname());
                    for (k, v) in p.options.other.iter() {
                        let _ = format!("{}({})", k, k.get_type().and_then(|x| x.decode(v)).map(|x| format!("{}", x)).unwrap_or_default());
                    }
                    let _ = p.serialise();
                    let mut pool = erbium::dhcp::pool::Pool::new_in_memory().expect("pool");
                    let conf = erbium::config::Config::default();
                    let req = erbium::dhcp::DHCPRequest { pkt: p, serverip: "192.0.2.1".parse().unwrap(), ifindex: 1, if_mtu: Some(1500), if_router: None };
                    match erbium::dhcp::handle_pkt(&mut pool, &req, Default::default(), &conf) {
                        Ok(rep) => {
                            let _ = rep.serialise();
                            "ok"
                        }
                        Err(_) => "ok",
                    }
                }
                Err(_) => "err",
            },
            "dnsq" | "dnsr" => match erbium::dns::verif::parse(b) {
                Ok(p) => {
                    let _ = format!("{:?}", p);
                    let _ = p.status();
                    let _ = p.get_expiry();
                    if let Some(e) = &p.edns {
                        let _ = e.get_nsid();
                        let _ = e.get_cookie();
                        let _ = e.get_extended_dns_error();
                    }
                    let _ = p.clone_with_ttl_decrement(0);
                    let _ = p.serialise();
                    "ok"
                }
                Err(_) => "err",
            },
            "rs" | "ra" => match erbium::radv::icmppkt::parse(b) {
                Ok(p) => {
                    let _ = format!("{:?}", p);
                    "ok"
                }
                Err(_) => "err",
            },
            "lldp" => {
                use erbium::pktparser::Deserialise as _;
                match erbium::lldp::lldppkt::LldpPacket::from_wire(&mut erbium::pktparser::Buffer::new(b)) {
                    Ok(p) => {
                        let _ = format!("{}", p);
                        "ok"
                    }
                    Err(_) => "err",
                }
            }
            _ => {
                let mut buf = erbium::pktparser::Buffer::new(b);
                let _ = buf.get_tlv();
                let _ = buf.get_domains();
                "ok"
            }
        }
    });
    match r {
        Ok(o) => (o.to_string(), String::new()),
        Err(p) => ("panic".to_string(), p),
    }
}

fn body(len: usize, fill: &str) -> Vec<u8> {
    match fill {
        "zero" => vec![0; len],
        "ff" => vec![0xff; len],
        "inc" => (0..len).map(|i| i as u8).collect(),
        _ => vec![len as u8; len],
    }
}

/// consistent packets from a grammar case: returns (handler kind, bytes) pairs
fn build(c: &Value) -> Vec<(&'static str, Vec<u8>)> {
    let a = &c["a"];
    let fmt = a["fmt"].as_str().unwrap_or("");
    let seeds = seeds();
    let seed = |k: &str| seeds.iter().find(|s| s.0 == k).unwrap().1.clone();
    let mut out = vec![];
    match fmt {
        "dhcp" => {
            let (code, len) = (a["code"].as_u64().unwrap() as u8, a["len"].as_u64().unwrap() as usize);
            let mut b = seed("dhcp")[..240].to_vec();
            b.extend([53, 1, 1]);
            b.push(code);
            b.push(len as u8);
            b.extend(body(len, a["fill"].as_str().unwrap()));
            b.extend([55, 3, 1, 3, code, 255]);
            out.push(("dhcp", b));
        }
        "edns" => {
            let (code, len) = (a["code"].as_u64().unwrap() as u16, a["len"].as_u64().unwrap() as usize);
            let q = build_query(7, true, false, false, &[b"x".to_vec(), b"example".to_vec()], 1, 1, Some((1232, false, vec![(code, body(len, a["fill"].as_str().unwrap()))])));
            out.push(("dnsq", q.clone()));
            let mut r = q;
            r[2] |= 0x80; // the same as a reply from upstream
            out.push(("dnsr", r));
        }
        "nd" => {
            let (code, len) = (a["code"].as_u64().unwrap() as u8, a["len"].as_u64().unwrap() as usize);
            for (k, hdr) in [("rs", vec![133u8, 0, 0, 0, 0, 0, 0, 0]), ("ra", vec![134u8, 0, 0, 0, 64, 0, 7, 8, 0, 0, 0, 0, 0, 0, 0, 0])] {
                let mut b = hdr;
                b.push(code);
                b.push(((2 + len) / 8) as u8);
                if len > 0 {
                    b.extend(body(len, a["fill"].as_str().unwrap()));
                }
                out.push((k, b));
            }
        }
        "lldp" => {
            let (code, len) = (a["code"].as_u64().unwrap() as u16, a["len"].as_u64().unwrap() as usize);
            let mut b = vec![0x02, 7, 4, 2, 0, 0, 0, 0, 1, 0x04, 4, 5, b'e', b't', b'h', 0x06, 2, 0, 120];
            let tl: u16 = (code << 9) | (len as u16 & 0x1ff);
            b.extend(tl.to_be_bytes());
            b.extend(body(len, a["fill"].as_str().unwrap()));
            b.extend([0, 0]);
            out.push(("lldp", b));
        }
        "dhcphdr" => {
            let mut b = seed("dhcp");
            let v = a["val"].as_u64().unwrap() as u8;
            match a["field"].as_str().unwrap() {
                "op" => b[0] = v,
                "htype" => b[1] = v,
                "hlen" => b[2] = v,
                "hops" => b[3] = v,
                _ => b[236] = v,
            }
            out.push(("dhcp", b));
        }
        "dnshdr" => {
            for k in ["dnsq", "dnsr"] {
                let mut b = seed(k);
                let v = (a["val"].as_u64().unwrap() as u16).to_be_bytes();
                let off = match a["field"].as_str().unwrap() {
                    "flags" => 2,
                    "qdcount" => 4,
                    "ancount" => 6,
                    "nscount" => 8,
                    _ => 10,
                };
                b[off] = v[0];
                b[off + 1] = v[1];
                out.push((k, b));
            }
        }
        _ => {}
    }
    out
}

fn apply(seed: &[u8], m: &Value) -> Option<Vec<u8>> {
    let mut b = seed.to_vec();
    match m["op"].as_str()? {
        "set" => {
            // write `val` (width 1, 2 or 4 octets, big endian) at offset
            let off = m["off"].as_u64()? as usize;
            let w = m["w"].as_u64()? as usize;
            let val = m["val"].as_u64()?;
            if off + w > b.len() {
                return None;
            }
            for i in 0..w {
                b[off + i] = (val >> (8 * (w - 1 - i))) as u8;
            }
        }
        "trunc" => {
            let n = m["n"].as_u64()? as usize;
            if n > b.len() {
                return None;
            }
            b.truncate(n);
        }
        "dup" => {
            let off = m["off"].as_u64()? as usize;
            let n = m["n"].as_u64()? as usize;
            if off + n > b.len() {
                return None;
            }
            let seg = b[off..off + n].to_vec();
            for (i, x) in seg.iter().enumerate() {
                b.insert(off + i, *x);
            }
        }
        _ => return None,
    }
    Some(b)
}

pub fn main(args: &[String]) {
    let cases = read_ndjson(&arg(args, "--cases").expect("--cases"));
    let mut out = Trace::create(&arg(args, "--out").expect("--out"));
    let mut rng = Rng::new(arg_u64(args, "--seed", 1));
    let nrand = arg_u64(args, "--rand", 2000);
    quiet_panics();
    let seeds = seeds();
    let seed_of = |k: &str| seeds.iter().find(|s| s.0 == k).map(|s| s.1.clone());
    for (k, s) in &seeds {
        let (o, d) = feed(k, s);
        out.emit(json!({"ev":"feed","h":k,"gen":{"kind":"seed"},"len":s.len(),"outcome":o,"detail":d}));
    }
    // (a) grammar-derived structured cases (spec/WireGrammar.tla)
    for c in &cases {
        for (k, b) in build(c) {
            let (o, d) = feed(k, &b);
            out.emit(json!({"ev":"feed","h":k,"gen":c,"len":b.len(),"outcome":o,"detail":d,"bytes": if o == "panic" { json!(hex(&b)) } else { json!("") }}));
        }
    }
    for c in cases.iter().filter(|c| c["fmt"].is_string()) {
        let k = c["fmt"].as_str().unwrap();
        if let Some(seed) = seed_of(k)
            && let Some(b) = apply(&seed, c)
        {
            let (o, d) = feed(k, &b);
            out.emit(json!({"ev":"feed","h":k,"gen":c,"len":b.len(),"outcome":o,"detail":d,"bytes": if o == "panic" { json!(hex(&b)) } else { json!("") }}));
        }
    }
    // (b) every truncation point and every single-octet boundary value at every offset of every seed
    for (k, s) in &seeds {
        for n in 0..s.len() {
            let (o, d) = feed(k, &s[..n]);
            out.emit(json!({"ev":"feed","h":k,"gen":{"kind":"trunc","n":n},"len":n,"outcome":o,"detail":d,"bytes": if o == "panic" { json!(hex(&s[..n])) } else { json!("") }}));
        }
        for off in 0..s.len() {
            for val in [0u8, 1, 0x3f, 0x40, 0x7f, 0x80, 0xbf, 0xc0, 0xfe, 0xff] {
                if s[off] == val {
                    continue;
                }
                let mut b = s.clone();
                b[off] = val;
                let (o, d) = feed(k, &b);
                if o == "panic" || (off * 7 + val as usize) % 16 == 0 {
                    out.emit(json!({"ev":"feed","h":k,"gen":{"kind":"octet","off":off,"val":val},"len":b.len(),"outcome":o,"detail":d,"bytes": if o == "panic" { json!(hex(&b)) } else { json!("") }}));
                }
            }
        }
    }
    // (c) random byte strings and random multi-mutations
    for i in 0..nrand {
        let (k, s) = &seeds[(i % seeds.len() as u64) as usize];
        let b = if i % 3 == 0 {
            rng.bytes_of(&[0, 1, 2, 11, 12, 13, 63, 64, 239, 240, 241, 300, 1500, 65535])
        } else {
            let mut b = s.clone();
            for _ in 0..1 + rng.below(4) {
                if b.is_empty() {
                    break;
                }
                let j = rng.below(b.len() as u64) as usize;
                match rng.below(4) {
                    0 => b[j] = rng.next() as u8,
                    1 => b[j] = *rng.pick(&[0u8, 0xff, 0xc0, 0x80, 1]),
                    2 => b.truncate(j),
                    _ => b.insert(j, rng.next() as u8),
                }
            }
            b
        };
        let (o, d) = feed(k, &b);
        if o == "panic" || i % 8 == 0 {
            out.emit(json!({"ev":"feed","h":k,"gen":{"kind":"rand","i":i},"len":b.len(),"outcome":o,"detail":d,"bytes": if o == "panic" { json!(hex(&b)) } else { json!("") }}));
        }
    }
    let n = out.finish();
    eprintln!("ingest: {} events", n);
}
