//! The "full" part of the rig: the real `DhcpService` and `http::run` in the private
//! network + mount namespace.  DHCP clients speak through a packet socket on one end of a
//! veth pair (frames built and parsed here, not with the code under test); HTTP clients
//! connect over TCP (IPv4 and IPv6, several source addresses) and over unix sockets (path
//! and abstract listeners; unnamed, path-bound and abstract-bound clients).  The lease
//! table is read (and aged) through the harness's own SQLite connection.
use crate::dnswalk::digest;
use crate::rig::*;
use crate::util::*;
use serde_json::{Value, json};
use std::sync::Arc;

const SERVER_MAC: [u8; 6] = [2, 0, 0, 0, 1, 1];
const CLIENT_IF_MAC: [u8; 6] = [2, 0, 0, 0, 1, 2];
pub const TCP4: &str = "127.0.0.1:9968";
pub const TCP6: &str = "[::1]:9968";
pub const TCPDUAL: &str = "[::]:9969";
pub const UNIX_PATH: &str = "/var/lib/erbium/control";
pub const UNIX_ABSTRACT: &str = "erbium-verif";
const DB: &str = "/var/lib/erbium/leases.sqlite";

pub fn setup_veth() {
    let sh = |c: &str| {
        let ok = std::process::Command::new("sh").args(["-c", c]).status().map(|s| s.success()).unwrap_or(false);
        if !ok {
            eprintln!("rig: namespace setup failed: {}", c);
            std::process::exit(3);
        }
    };
    sh("ip link add veth0 type veth peer name veth1");
    sh("ip link set veth0 address 02:00:00:00:01:01 && ip link set veth1 address 02:00:00:00:01:02");
    sh("ip addr add 192.0.2.1/24 dev veth0");
    sh("sysctl -q -w net.ipv6.conf.veth0.accept_dad=0 net.ipv6.conf.veth1.accept_dad=0 net.ipv6.conf.veth0.router_solicitations=0 net.ipv6.conf.veth1.router_solicitations=0 net.ipv6.conf.veth0.accept_ra=0 net.ipv6.conf.veth1.accept_ra=0 >/dev/null 2>&1 || true");
    sh("ip link set veth0 up && ip link set veth1 up");
    sh("ip -6 addr add 2001:db8:0:1::1/64 dev veth0 nodad");
    // a second pair for the lease scenarios (their configurations match the subnet 10.9.0.0/24)
    sh("ip link add veth2 type veth peer name veth3");
    sh("ip link set veth2 address 02:00:00:00:02:01 && ip link set veth3 address 02:00:00:00:02:02");
    sh("ip addr add 10.9.0.1/24 dev veth2");
    sh("sysctl -q -w net.ipv6.conf.veth2.accept_dad=0 net.ipv6.conf.veth3.accept_dad=0 net.ipv6.conf.veth2.accept_ra=0 net.ipv6.conf.veth3.accept_ra=0 net.ipv6.conf.veth2.router_solicitations=0 net.ipv6.conf.veth3.router_solicitations=0 >/dev/null 2>&1 || true");
    sh("ip link set veth2 up && ip link set veth3 up");
    // an IPv6 default route through ANOTHER interface than the advertising one: the service is then a default router
    // (default router lifetime 1800 s), which makes `lifetime: null` (0) and an absent lifetime distinguishable on the wire
    sh("ip -6 route add default dev veth2 metric 1024");
    // the lease scenarios lease addresses from 10.0.0.0/12: renewing clients send from them, so they must be reachable
    // through veth2 or the kernel drops their packets as martians
    sh("sysctl -q -w net.ipv4.conf.all.rp_filter=0 net.ipv4.conf.veth2.rp_filter=0 >/dev/null 2>&1 || true");
    sh("ip route add 10.0.0.0/12 dev veth2");
}

// ------------------------------------------------------------ packet socket --
fn csum(data: &[u8]) -> u16 {
    let mut s: u32 = 0;
    for c in data.chunks(2) {
        s += ((c[0] as u32) << 8) | (*c.get(1).unwrap_or(&0) as u32);
    }
    while s >> 16 != 0 {
        s = (s & 0xffff) + (s >> 16);
    }
    !(s as u16)
}

/// Ethernet + IPv4 + UDP around a payload (RFC 894 / 791 / 768)
pub fn udp_frame(srcmac: [u8; 6], dstmac: [u8; 6], src: [u8; 4], sport: u16, dst: [u8; 4], dport: u16, payload: &[u8]) -> Vec<u8> {
    let ulen = 8 + payload.len();
    let mut udp = vec![];
    udp.extend(sport.to_be_bytes());
    udp.extend(dport.to_be_bytes());
    udp.extend((ulen as u16).to_be_bytes());
    udp.extend([0, 0]);
    udp.extend(payload);
    let mut pseudo = vec![];
    pseudo.extend(src);
    pseudo.extend(dst);
    pseudo.extend([0, 17]);
    pseudo.extend((ulen as u16).to_be_bytes());
    pseudo.extend(&udp);
    let c = match csum(&pseudo) {
        0 => 0xffff,
        x => x,
    };
    udp[6..8].copy_from_slice(&c.to_be_bytes());
    let mut ip = vec![0x45, 0];
    ip.extend(((20 + ulen) as u16).to_be_bytes());
    ip.extend([0, 0, 0, 0, 64, 17, 0, 0]);
    ip.extend(src);
    ip.extend(dst);
    let c = csum(&ip);
    ip[10..12].copy_from_slice(&c.to_be_bytes());
    let mut f = vec![];
    f.extend(dstmac);
    f.extend(srcmac);
    f.extend([8, 0]);
    f.extend(ip);
    f.extend(udp);
    f
}

pub struct PacketSock {
    fd: i32,
}
impl PacketSock {
    pub fn open(ifname: &str) -> PacketSock {
        unsafe {
            let fd = libc::socket(libc::AF_PACKET, libc::SOCK_RAW, (libc::ETH_P_ALL as u16).to_be() as i32);
            if fd < 0 {
                eprintln!("rig: cannot open a packet socket");
                std::process::exit(3);
            }
            let name = std::ffi::CString::new(ifname).unwrap();
            let idx = libc::if_nametoindex(name.as_ptr());
            let mut sll: libc::sockaddr_ll = std::mem::zeroed();
            sll.sll_family = libc::AF_PACKET as u16;
            sll.sll_protocol = (libc::ETH_P_ALL as u16).to_be();
            sll.sll_ifindex = idx as i32;
            if libc::bind(fd, &sll as *const _ as *const libc::sockaddr, std::mem::size_of::<libc::sockaddr_ll>() as u32) != 0 {
                eprintln!("rig: cannot bind the packet socket to {}", ifname);
                std::process::exit(3);
            }
            let tv = libc::timeval { tv_sec: 0, tv_usec: 20_000 };
            libc::setsockopt(fd, libc::SOL_SOCKET, libc::SO_RCVTIMEO, &tv as *const _ as *const libc::c_void, std::mem::size_of::<libc::timeval>() as u32);
            PacketSock { fd }
        }
    }
    pub fn send(&self, frame: &[u8]) -> bool {
        unsafe { libc::send(self.fd, frame.as_ptr() as *const libc::c_void, frame.len(), 0) == frame.len() as isize }
    }
    /// the next UDP datagram from port 67 to port 68 seen on the interface within `ms`: (whole frame, payload)
    pub fn recv_dhcp(&self, ms: u64) -> Option<(Vec<u8>, Vec<u8>)> {
        let end = std::time::Instant::now() + std::time::Duration::from_millis(ms);
        let mut buf = vec![0u8; 4096];
        while std::time::Instant::now() < end {
            let n = unsafe { libc::recv(self.fd, buf.as_mut_ptr() as *mut libc::c_void, buf.len(), 0) };
            if n < 42 {
                continue;
            }
            let f = &buf[..n as usize];
            if f[12] != 8 || f[13] != 0 || f[14] >> 4 != 4 || f[23] != 17 {
                continue;
            }
            let ihl = ((f[14] & 15) as usize) * 4;
            let u = 14 + ihl;
            if f.len() < u + 8 {
                continue;
            }
            let (sp, dp) = (u16::from_be_bytes([f[u], f[u + 1]]), u16::from_be_bytes([f[u + 2], f[u + 3]]));
            if sp != 67 || dp != 68 {
                continue;
            }
            let ulen = u16::from_be_bytes([f[u + 4], f[u + 5]]) as usize;
            let endp = (u + ulen).min(f.len());
            return Some((f.to_vec(), f[u + 8..endp].to_vec()));
        }
        None
    }
    /// the next frame satisfying `pred` within `ms`
    pub fn recv_match(&self, ms: u64, pred: impl Fn(&[u8]) -> bool) -> Option<Vec<u8>> {
        let end = std::time::Instant::now() + std::time::Duration::from_millis(ms);
        let mut buf = vec![0u8; 4096];
        while std::time::Instant::now() < end {
            let n = unsafe { libc::recv(self.fd, buf.as_mut_ptr() as *mut libc::c_void, buf.len(), 0) };
            if n >= 14 && pred(&buf[..n as usize]) {
                return Some(buf[..n as usize].to_vec());
            }
        }
        None
    }
    /// drop anything queued
    pub fn flush(&self) {
        while self.recv_dhcp(1).is_some() {}
    }
}

/// Ethernet + IPv6 + ICMPv6 (RFC 8200 / 4443); the checksum field of `icmp` is filled in here, so that the
/// kernel hands the message to raw sockets whatever else is wrong with it
pub fn icmp6_frame(srcmac: [u8; 6], dstmac: [u8; 6], src: std::net::Ipv6Addr, dst: std::net::Ipv6Addr, icmp: &[u8]) -> Vec<u8> {
    let mut icmp = icmp.to_vec();
    if icmp.len() >= 4 {
        icmp[2] = 0;
        icmp[3] = 0;
        let mut pseudo = vec![];
        pseudo.extend(src.octets());
        pseudo.extend(dst.octets());
        pseudo.extend((icmp.len() as u32).to_be_bytes());
        pseudo.extend([0, 0, 0, 58]);
        pseudo.extend(&icmp);
        let c = csum(&pseudo);
        icmp[2..4].copy_from_slice(&c.to_be_bytes());
    }
    let mut f = vec![];
    f.extend(dstmac);
    f.extend(srcmac);
    f.extend([0x86, 0xdd]);
    f.extend([0x60, 0, 0, 0]);
    f.extend((icmp.len() as u16).to_be_bytes());
    f.extend([58, 255]);
    f.extend(src.octets());
    f.extend(dst.octets());
    f.extend(icmp);
    f
}

const SERVER_LL6: &str = "fe80::ff:fe00:101";
const CLIENT_LL6: &str = "fe80::ff:fe00:102";
fn is_ra(f: &[u8]) -> bool {
    f.len() >= 14 + 40 + 4 && f[12] == 0x86 && f[13] == 0xdd && f[14 + 6] == 58 && f[14 + 40] == 134
}

/// A captured frame taken apart (RFC 894 / 791 / 768), checksums recomputed here.
pub fn dissect(f: &[u8]) -> Value {
    if f.len() < 42 {
        return json!({"ok": false});
    }
    let ihl = ((f[14] & 15) as usize) * 4;
    let u = 14 + ihl;
    if f.len() < u + 8 {
        return json!({"ok": false});
    }
    let iplen = u16::from_be_bytes([f[16], f[17]]) as usize;
    let udplen = u16::from_be_bytes([f[u + 4], f[u + 5]]) as usize;
    let ipsum_ok = csum(&f[14..u]) == 0;
    let uend = (u + udplen).min(f.len());
    let mut pseudo = vec![];
    pseudo.extend(&f[26..30]);
    pseudo.extend(&f[30..34]);
    pseudo.extend([0, 17]);
    pseudo.extend((udplen as u16).to_be_bytes());
    pseudo.extend(&f[u..uend]);
    let udpsum_ok = f[u + 6..u + 8] != [0, 0] && csum(&pseudo) == 0 && uend == u + udplen;
    json!({"ok": true, "dstmac": f[0..6], "srcmac": f[6..12], "ipsrc": f[26..30], "ipdst": f[30..34], "ihl": ihl, "iplen": iplen, "udplen": udplen,
           "paylen": uend.saturating_sub(u + 8), "framelen": f.len(), "ipsum_ok": ipsum_ok, "udpsum_ok": udpsum_ok, "ttl": f[22]})
}

// -------------------------------------------------------------- DHCP client --
/// a BOOTREQUEST with the given message type and options (codes with raw values)
pub fn dhcp_msg(xid: u32, chaddr: &[u8; 6], broadcast: bool, ciaddr: [u8; 4], opts: &[(u8, Vec<u8>)]) -> Vec<u8> {
    dhcp_msg_flags(xid, chaddr, if broadcast { 0x8000 } else { 0 }, ciaddr, opts)
}

pub fn dhcp_msg_flags(xid: u32, chaddr: &[u8; 6], flags: u16, ciaddr: [u8; 4], opts: &[(u8, Vec<u8>)]) -> Vec<u8> {
    let mut d = vec![1u8, 1, 6, 0];
    d.extend(xid.to_be_bytes());
    d.extend([0, 0]);
    d.extend(flags.to_be_bytes());
    d.extend(ciaddr);
    d.extend([0u8; 12]);
    d.extend(chaddr);
    d.extend([0u8; 10]);
    d.extend([0u8; 192]);
    d.extend([0x63, 0x82, 0x53, 0x63]);
    for (c, v) in opts {
        // values longer than 255 octets are split (RFC 3396)
        if v.is_empty() {
            d.extend([*c, 0]);
        }
        for chunk in v.chunks(255) {
            d.push(*c);
            d.push(chunk.len() as u8);
            d.extend(chunk);
        }
    }
    d.push(255);
    d
}

/// (message type, yiaddr, options) of a reply, walked here
fn reply_summary(p: &[u8]) -> Value {
    if p.len() < 240 {
        return json!({"ok": false});
    }
    let mut opts: std::collections::BTreeMap<u8, Vec<u8>> = Default::default();
    let mut i = 240;
    let mut ended = false;
    while i < p.len() {
        let c = p[i];
        if c == 255 {
            ended = true;
            break;
        }
        if c == 0 {
            i += 1;
            continue;
        }
        if i + 1 >= p.len() {
            break;
        }
        let l = p[i + 1] as usize;
        if i + 2 + l > p.len() {
            break;
        }
        opts.entry(c).or_default().extend(&p[i + 2..i + 2 + l]);
        i += 2 + l;
    }
    let u32of = |c: u8| opts.get(&c).filter(|v| v.len() == 4).map(|v| u32::from_be_bytes([v[0], v[1], v[2], v[3]]) as u64);
    // well formed = the option area is closed by an END option that the walk reaches (RFC 2131: the last option must be END)
    json!({"ok": true, "ended": ended, "nopts": opts.len(), "op": p[0], "xid": u32::from_be_bytes([p[4], p[5], p[6], p[7]]) as u64, "yiaddr": p[16..20], "chaddr": p[28..34],
           "mtype": opts.get(&53).and_then(|v| v.first().copied()).map(|x| x as i64).unwrap_or(-1), "lease": u32of(51).map(|x| x as i64).unwrap_or(-1),
           "serverid": opts.get(&54).cloned().unwrap_or_default()})
}

// ------------------------------------------------------------- HTTP clients --
fn parse_http(raw: &[u8]) -> (i64, Vec<u8>) {
    let head_end = raw.windows(4).position(|w| w == b"\r\n\r\n");
    let status = std::str::from_utf8(&raw[..raw.len().min(12)]).ok().and_then(|s| s.split(' ').nth(1)).and_then(|x| x.parse::<i64>().ok()).unwrap_or(-1);
    match head_end {
        Some(h) => (status, raw[h + 4..].to_vec()),
        None => (status, vec![]),
    }
}

async fn http_tcp(dst: &str, src: &str, method: &str, path: &str) -> (i64, Vec<u8>, String) {
    use tokio::io::{AsyncReadExt, AsyncWriteExt};
    let dst: std::net::SocketAddr = dst.parse().unwrap();
    let src: std::net::IpAddr = src.parse().unwrap();
    let sock = if dst.is_ipv4() { tokio::net::TcpSocket::new_v4() } else { tokio::net::TcpSocket::new_v6() }.unwrap();
    if let Err(e) = sock.bind(std::net::SocketAddr::new(src, 0)) {
        return (-1, vec![], format!("bind {}: {}", src, e));
    }
    let mut s = match tokio::time::timeout(std::time::Duration::from_secs(2), sock.connect(dst)).await {
        Ok(Ok(s)) => s,
        Ok(Err(e)) => return (-1, vec![], format!("connect: {}", e)),
        Err(_) => return (-1, vec![], "connect timed out".into()),
    };
    let req = format!("{} {} HTTP/1.1\r\nHost: erbium\r\nConnection: close\r\n\r\n", method, path);
    if s.write_all(req.as_bytes()).await.is_err() {
        return (-1, vec![], "write failed".into());
    }
    let mut raw = vec![];
    let _ = tokio::time::timeout(std::time::Duration::from_secs(3), s.read_to_end(&mut raw)).await;
    let (st, body) = parse_http(&raw);
    (st, body, String::new())
}

/// unix stream client; `server` = path or "@name"; `bind` = None (unnamed), Some(path) or Some("@name")
fn http_unix(server: &str, bind: Option<&str>, method: &str, path: &str) -> (i64, Vec<u8>, String) {
    fn sun(name: &str) -> (libc::sockaddr_un, u32) {
        let mut a: libc::sockaddr_un = unsafe { std::mem::zeroed() };
        a.sun_family = libc::AF_UNIX as u16;
        let bytes = name.as_bytes();
        let off = if let Some(abs) = name.strip_prefix('@') {
            for (i, b) in abs.bytes().enumerate() {
                a.sun_path[1 + i] = b as libc::c_char;
            }
            1 + abs.len()
        } else {
            for (i, b) in bytes.iter().enumerate() {
                a.sun_path[i] = *b as libc::c_char;
            }
            bytes.len() + 1
        };
        (a, (std::mem::size_of::<libc::sa_family_t>() + off) as u32)
    }
    unsafe {
        let fd = libc::socket(libc::AF_UNIX, libc::SOCK_STREAM, 0);
        if fd < 0 {
            return (-1, vec![], "socket".into());
        }
        let tv = libc::timeval { tv_sec: 2, tv_usec: 0 };
        libc::setsockopt(fd, libc::SOL_SOCKET, libc::SO_RCVTIMEO, &tv as *const _ as *const libc::c_void, std::mem::size_of::<libc::timeval>() as u32);
        libc::setsockopt(fd, libc::SOL_SOCKET, libc::SO_SNDTIMEO, &tv as *const _ as *const libc::c_void, std::mem::size_of::<libc::timeval>() as u32);
        if let Some(b) = bind {
            if !b.starts_with('@') {
                let _ = std::fs::remove_file(b);
            }
            let (a, l) = sun(b);
            if libc::bind(fd, &a as *const _ as *const libc::sockaddr, l) != 0 {
                libc::close(fd);
                return (-1, vec![], format!("bind {}: {}", b, std::io::Error::last_os_error()));
            }
        }
        let (a, l) = sun(server);
        if libc::connect(fd, &a as *const _ as *const libc::sockaddr, l) != 0 {
            let e = std::io::Error::last_os_error();
            libc::close(fd);
            return (-1, vec![], format!("connect {}: {}", server, e));
        }
        let req = format!("{} {} HTTP/1.1\r\nHost: erbium\r\nConnection: close\r\n\r\n", method, path);
        libc::send(fd, req.as_ptr() as *const libc::c_void, req.len(), libc::MSG_NOSIGNAL);
        let mut raw = vec![];
        let mut buf = vec![0u8; 65536];
        loop {
            let n = libc::recv(fd, buf.as_mut_ptr() as *mut libc::c_void, buf.len(), 0);
            if n <= 0 {
                break;
            }
            raw.extend(&buf[..n as usize]);
        }
        libc::close(fd);
        let (st, body) = parse_http(&raw);
        (st, body, if raw.is_empty() { "no response".into() } else { String::new() })
    }
}

/// one response off a keep-alive connection: (status, body); reads exactly Content-Length octets
fn read_response(raw: &mut Vec<u8>, mut more: impl FnMut(&mut Vec<u8>) -> bool) -> (i64, Vec<u8>) {
    loop {
        if let Some(h) = raw.windows(4).position(|w| w == b"\r\n\r\n") {
            let head = String::from_utf8_lossy(&raw[..h]).to_string();
            let status = head.split(' ').nth(1).and_then(|x| x.parse::<i64>().ok()).unwrap_or(-1);
            let clen = head.lines().find_map(|l| l.to_ascii_lowercase().strip_prefix("content-length:").map(|v| v.trim().parse::<usize>().unwrap_or(0))).unwrap_or(0);
            while raw.len() < h + 4 + clen {
                if !more(raw) {
                    return (status, raw[(h + 4).min(raw.len())..].to_vec());
                }
            }
            let body = raw[h + 4..h + 4 + clen].to_vec();
            raw.drain(..h + 4 + clen);
            return (status, body);
        }
        if !more(raw) {
            return (-1, vec![]);
        }
    }
}

/// several requests on ONE connection (HTTP/1.1 keep-alive), over TCP
async fn http_tcp_seq(dst: &str, src: &str, paths: &[String]) -> Vec<(i64, Vec<u8>)> {
    use tokio::io::{AsyncReadExt, AsyncWriteExt};
    let dst: std::net::SocketAddr = dst.parse().unwrap();
    let src: std::net::IpAddr = src.parse().unwrap();
    let sock = if dst.is_ipv4() { tokio::net::TcpSocket::new_v4() } else { tokio::net::TcpSocket::new_v6() }.unwrap();
    let mut out = vec![];
    if sock.bind(std::net::SocketAddr::new(src, 0)).is_err() {
        return out;
    }
    let mut s = match tokio::time::timeout(std::time::Duration::from_secs(2), sock.connect(dst)).await {
        Ok(Ok(s)) => s,
        _ => return out,
    };
    let mut raw: Vec<u8> = vec![];
    for p in paths {
        let req = format!("GET {} HTTP/1.1\r\nHost: erbium\r\n\r\n", p);
        if s.write_all(req.as_bytes()).await.is_err() {
            out.push((-1, vec![]));
            continue;
        }
        // pull octets until one whole response is there
        let mut got: Option<(i64, Vec<u8>)> = None;
        for _ in 0..200 {
            let mut probe = raw.clone();
            let r = read_response(&mut probe, |_| false);
            if r.0 != -1 && (probe.len() < raw.len() || raw.windows(4).any(|w| w == b"\r\n\r\n")) && complete(&raw) {
                let r = read_response(&mut raw, |_| false);
                got = Some(r);
                break;
            }
            let mut buf = vec![0u8; 65536];
            match tokio::time::timeout(std::time::Duration::from_secs(2), s.read(&mut buf)).await {
                Ok(Ok(n)) if n > 0 => raw.extend(&buf[..n]),
                _ => break,
            }
        }
        out.push(got.unwrap_or((-1, vec![])));
    }
    out
}

/// is there one complete response (headers + Content-Length octets) at the front of `raw`?
fn complete(raw: &[u8]) -> bool {
    match raw.windows(4).position(|w| w == b"\r\n\r\n") {
        Some(h) => {
            let head = String::from_utf8_lossy(&raw[..h]).to_string();
            let clen = head.lines().find_map(|l| l.to_ascii_lowercase().strip_prefix("content-length:").map(|v| v.trim().parse::<usize>().unwrap_or(0))).unwrap_or(0);
            raw.len() >= h + 4 + clen
        }
        None => false,
    }
}

// ------------------------------------------------------------- lease table --
/// rows of the lease table through the harness's own connection: [ip octets, client id digest, client id length, start, expiry]
fn sql_rows(base: i64) -> Result<Vec<Value>, String> {
    let c = rusqlite::Connection::open_with_flags(DB, rusqlite::OpenFlags::SQLITE_OPEN_READ_WRITE).map_err(|e| e.to_string())?;
    let _ = c.busy_timeout(std::time::Duration::from_secs(2));
    let mut st = c.prepare("SELECT address, clientid, start, expiry FROM leases").map_err(|e| e.to_string())?;
    let rows = st
        .query_map([], |r| Ok((r.get::<_, String>(0)?, r.get::<_, Vec<u8>>(1)?, r.get::<_, i64>(2)?, r.get::<_, i64>(3)?)))
        .map_err(|e| e.to_string())?
        .filter_map(|r| r.ok())
        .map(|(a, cid, s, e)| {
            let ip: std::net::Ipv4Addr = a.parse().unwrap_or(std::net::Ipv4Addr::UNSPECIFIED);
            json!([ip.octets(), digest(&cid), cid.len(), s - base, e - base])
        })
        .collect();
    Ok(rows)
}

/// move every lease `secs` into the past (the harness's clock for expiry)
fn sql_age(secs: i64) -> Result<(), String> {
    let c = rusqlite::Connection::open_with_flags(DB, rusqlite::OpenFlags::SQLITE_OPEN_READ_WRITE).map_err(|e| e.to_string())?;
    let _ = c.busy_timeout(std::time::Duration::from_secs(2));
    c.execute("UPDATE leases SET start = start - ?1, expiry = expiry - ?1", [secs]).map_err(|e| e.to_string())?;
    Ok(())
}

fn hexbytes(v: &Value) -> Vec<u8> {
    unhex(v.as_str().unwrap_or(""))
}

fn perm_of(path: &str) -> &'static str {
    match path {
        "/" => "http",
        "/metrics" => "http-metrics",
        "/api/v1/leases.json" => "http-leases",
        _ => "other",
    }
}

fn metric(body: &str, name: &str) -> i64 {
    body.lines().find(|l| l.starts_with(name) && l[name.len()..].starts_with(' ')).and_then(|l| l[name.len() + 1..].trim().parse::<f64>().ok()).map(|x| x as i64).unwrap_or(-1)
}

/// How many DHCP packets the service has finished with: every path through recvdhcp ends by counting a sent packet
/// or an error (its own Prometheus counters, read in-process).  Lets the driver wait for "handled" instead of guessing
/// a timeout for "no reply".
static UNCOUNTED: std::sync::atomic::AtomicU64 = std::sync::atomic::AtomicU64::new(0);
fn dhcp_handled() -> (u64, u64) {
    let (mut sent, mut errors) = (0u64, 0u64);
    for mf in prometheus::gather() {
        let which = match mf.get_name() {
            "dhcp_sent_packets" => &mut sent,
            "dhcp_errors" => &mut errors,
            _ => continue,
        };
        for m in mf.get_metric() {
            *which += m.get_counter().get_value() as u64;
        }
    }
    (sent, errors)
}

/// One message of a lease scenario through the real service: the same event as the function-level
/// driver records (harness/src/dhcp.rs, level "pkt"), with lvl = "svc".
fn lease_msg_svc(st: &mut crate::dhcp::Store, sock: &PacketSock, live: &erbium::config::SharedConfig, step: &Value) -> Value {
    use crate::dhcp::{FOREIGN, SERVERIP, SERVERIP2, addr, client_identity, client_wire, idx, yaml_for_pool};
    let c = step["c"].as_i64().unwrap();
    let req = step["req"].as_i64().unwrap_or(0);
    let kind = step["kind"].as_str().unwrap_or("discover");
    let mtype = step["mtype"].as_i64().unwrap_or(match kind {
        "discover" => 1,
        "request" => 3,
        _ => 8,
    });
    let sid = step["sid"].as_i64().unwrap_or(0);
    let via_ciaddr = step["via"].as_str() == Some("ciaddr");
    let nopolicy = step["nopolicy"].as_bool().unwrap_or(false);
    let flags = step["flags"].as_i64().unwrap_or(0) as u16;
    let xid = step["xid"].as_i64().unwrap_or(0x1234_0000 + c) as u32;
    let p: Vec<i64> = step["P"].as_array().unwrap().iter().map(|x| x.as_i64().unwrap()).collect();
    let (chaddr_v, cid) = client_wire(c);
    let chaddr: [u8; 6] = chaddr_v.clone().try_into().unwrap();
    st.ids.insert(client_identity(c, "pkt"), c);
    // the pool of this message: swap the policies of the live configuration
    let mut key = p.clone();
    key.sort();
    key.dedup();
    let yaml = if nopolicy { "dhcp-policies:\n  - match-subnet: 10.8.0.0/24\n    apply-range: {start: 10.8.0.10, end: 10.8.0.20}\n".to_string() } else { yaml_for_pool(&key) };
    let loaded = erbium::config::verif_load_config_from_string(&yaml).unwrap_or_else(|e| {
        eprintln!("harness: generated config rejected: {}\n{}", e, yaml);
        std::process::exit(2)
    });
    tokio::task::block_in_place(|| {
        let h = tokio::runtime::Handle::current();
        h.block_on(async {
            let mut a = live.write().await;
            let mut b = loaded.write().await;
            std::mem::swap(&mut a.dhcp, &mut b.dhcp);
        })
    });
    let mut opts: Vec<(u8, Vec<u8>)> = vec![];
    if mtype >= 0 {
        opts.push((53, vec![mtype as u8]));
    }
    if let Some(cid) = &cid {
        opts.push((61, cid.clone()));
    }
    if req > 0 && !via_ciaddr {
        opts.push((50, addr(req).octets().to_vec()));
    }
    let sidaddr = match sid {
        1 => Some(SERVERIP),
        2 => Some(FOREIGN),
        3 => Some(SERVERIP2),
        _ => None,
    };
    if let Some(s) = sidaddr {
        opts.push((54, s.octets().to_vec()));
    }
    if let Some(w) = step["want"].as_u64() {
        opts.push((51, (w as u32).to_be_bytes().to_vec()));
    }
    if let Some(pl) = step["plist"].as_array() {
        opts.push((55, pl.iter().map(|x| x.as_u64().unwrap() as u8).collect()));
    }
    if let Some(v) = step["vclass"].as_str() {
        opts.push((60, v.as_bytes().to_vec()));
    }
    if let Some(h) = step["hostname"].as_array() {
        opts.push((12, h.iter().map(|x| x.as_u64().unwrap() as u8).collect()));
    }
    let ciaddr = if req > 0 && via_ciaddr { addr(req).octets() } else { [0; 4] };
    let payload = dhcp_msg_flags(xid, &chaddr, flags, ciaddr, &opts);
    // clients address the server in three ways: limited broadcast, the subnet's directed broadcast, unicast to the server
    // (a client without an address can only broadcast; one that renews sends from its address, and may unicast)
    let frame = match (xid as i64 + c + mtype) % 3 {
        0 => udp_frame(chaddr, [0xff; 6], [10, 9, 0, 200], 68, [10, 9, 0, 255], 67, &payload), // (some on-link source: 0.0.0.0 may only go to the limited broadcast)
        1 if ciaddr != [0; 4] => udp_frame(chaddr, [2, 0, 0, 0, 2, 1], ciaddr, 68, [10, 9, 0, 1], 67, &payload),
        _ => udp_frame(chaddr, [0xff; 6], ciaddr, 68, [255, 255, 255, 255], 67, &payload),
    };
    let before = st.table();
    let t0 = st.now();
    let handled0 = dhcp_handled();
    let reply = tokio::task::block_in_place(|| {
        sock.flush();
        if !sock.send(&frame) {
            return None;
        }
        // wait until the service has finished with the packet (sent a reply or counted an error), then look for the frame
        let end = std::time::Instant::now() + std::time::Duration::from_secs(3);
        loop {
            if let Some(r) = sock.recv_dhcp(5) {
                return Some(r);
            }
            let (sent, errors) = dhcp_handled();
            if sent > handled0.0 {
                return sock.recv_dhcp(1000); // counted as sent: the frame is on its way
            }
            if errors > handled0.1 {
                return None; // the service gave up on this packet: there will be no frame
            }
            if std::time::Instant::now() > end {
                // never counted (the kernel did not deliver the frame?): as a last resort the old rule (a changed store announces a reply)
                UNCOUNTED.fetch_add(1, std::sync::atomic::Ordering::SeqCst);
                return if st.table() != before { sock.recv_dhcp(2000) } else { None };
            }
        }
    });
    let t1 = st.now();
    if reply.is_none() && dhcp_handled() == handled0 && st.table() == before {
        // the service never counted this frame (it was not delivered): not an event of the service
        return json!({"ev":"undelivered","lvl":"svc","c":c,"mtype":mtype,"ciaddr":ciaddr,"how":(xid as i64 + c + mtype) % 3,"len":payload.len()});
    }
    let ours = |a: std::net::Ipv4Addr| a == SERVERIP;
    let mut echo = true;
    let mut rsid = true;
    let mut rtype = -1;
    let (res, y, l, err) = match &reply {
        Some((_, pl)) => match erbium::dhcp::dhcppkt::parse(pl) {
            Ok(r) => {
                use erbium::dhcp::dhcppkt;
                echo = r.xid == xid && r.chaddr == chaddr_v && r.giaddr.is_unspecified() && r.flags == flags;
                rsid = match r.options.other.get(&dhcppkt::OPTION_SERVERID) {
                    Some(v) if v.len() == 4 => ours(std::net::Ipv4Addr::new(v[0], v[1], v[2], v[3])),
                    _ => false,
                };
                rtype = r.options.other.get(&dhcppkt::OPTION_MSGTYPE).and_then(|v| v.first().copied()).map(|x| x as i64).unwrap_or(-1);
                let l = match r.options.other.get(&dhcppkt::OPTION_LEASETIME) {
                    Some(v) if v.len() == 4 => (u32::from_be_bytes([v[0], v[1], v[2], v[3]]) as i64).min(2_000_000_000),
                    Some(_) => -2,
                    None => -1,
                };
                ("ok", idx(r.yiaddr), l, String::new())
            }
            Err(e) => ("err", 0, -1, format!("reply does not decode: {}", e)),
        },
        // no reply: the reason is not visible on the wire; name the one the message itself gives
        None => {
            let reason = if !(mtype == 1 || mtype == 3) || nopolicy || (mtype == 3 && sidaddr.map(|s| !ours(s)).unwrap_or(false)) {
                "ignored"
            } else if p.is_empty() {
                "nopool"
            } else {
                "noaddr"
            };
            (reason, 0, -1, String::new())
        }
    };
    let eff: Vec<i64> = if nopolicy { vec![] } else { p.clone() };
    json!({"ev":"msg","lvl":"svc","kind": if mtype==1 {"discover"} else if mtype==3 {"request"} else {"other"},
           "c":c,"req":req,"P":eff,"res":res,"y":y,"L":l,
           "minl":erbium::dhcp::pool::DEFAULT_MIN_LEASE.as_secs(),"maxl":erbium::dhcp::pool::DEFAULT_MAX_LEASE.as_secs(),
           "t0":t0,"t1":t1,"mtype":mtype,"sidp":sidaddr.is_some(),"sidin":sidaddr.map(ours).unwrap_or(false),
           "echo":echo,"rsid":rsid,"rtype":rtype,"err":err,"db":st.table()})
}

/// a lease scenario (see lib/dhcp_lease.py) replayed through the real service on the second veth pair
fn lease_scenario_svc(sc: &Value, sock: &PacketSock, live: &erbium::config::SharedConfig, epoch: i64) -> Vec<Value> {
    let mut out = vec![];
    let u = sc["U"].as_i64().unwrap_or(4);
    crate::dhcp::set_amap(sc["amap"].as_array().map(|a| a.iter().map(|x| x.as_u64().unwrap() as u32).collect()).unwrap_or_default());
    crate::dhcp::set_policy_lease_time(&sc["plt"]);
    let pool = erbium::dhcp::pool::Pool::verif_open(std::path::Path::new(DB)).expect("the service's lease file");
    let _ = pool.verif_conn().busy_timeout(std::time::Duration::from_secs(2));
    let _ = pool.verif_conn().execute("DELETE FROM leases", []);
    let mut st = crate::dhcp::Store { pool: Some(pool), path: DB.into(), epoch, shift: 0, ids: Default::default() };
    for c in 1..=64 {
        st.ids.insert(crate::dhcp::client_identity(c, "pkt"), c);
    }
    out.push(json!({"ev":"reset","sc":sc["sc"],"lvl":"svc","U":(1..=u).collect::<Vec<i64>>(),"t":st.now(),"db":[]}));
    for step in sc["steps"].as_array().unwrap_or(&vec![]) {
        match step["k"].as_str().unwrap_or("") {
            "msg" => {
                // relayed messages are left to the function level (the reply would go to the relay)
                if step["relay"].as_bool().unwrap_or(false) {
                    continue;
                }
                out.push(lease_msg_svc(&mut st, sock, live, step));
            }
            "tick" => {
                let d = step["d"].as_i64().unwrap_or(0);
                st.shift_rows(d);
                out.push(json!({"ev":"tick","d":d,"t":st.now()}));
            }
            "tickto" => {
                let x = step["x"].as_i64().unwrap_or(0);
                let off = step["off"].as_i64().unwrap_or(0);
                let d = st.expiry_of(x).map(|e| e + off - st.now()).unwrap_or(0).max(0);
                st.shift_rows(d);
                out.push(json!({"ev":"tick","d":d,"t":st.now()}));
            }
            _ => {} // restarts and the C20 observers have their own service-level parts
        }
    }
    out
}

/// `rig full`: cases = {acls: rule list or null, steps: [...]}
pub fn http(args: &[String]) {
    let cases = read_ndjson(&arg(args, "--cases").expect("--cases"));
    let mut out = Trace::create(&arg(args, "--out").expect("--out"));
    setup_namespace();
    setup_veth();
    let rt = tokio::runtime::Builder::new_multi_thread().worker_threads(4).enable_all().build().unwrap();
    rt.block_on(async {
        let base = now_secs();
        let yaml = format!("addresses: [192.0.2.1/24]\ndns-servers: [192.0.2.53, 192.0.2.54, 192.0.2.55]\ndns-search: [example.com, corp.example.org]\ncaptive-portal: \"https://portal.example/a/rather/long/path/so/that/replies/with/this/option/exceed/three/hundred/octets/0123456789/0123456789/0123456789\"\nrouter-advertisements: {{veth0: {{lifetime: 1h, prefixes: [{{prefix: \"2001:db8:0:1::/64\"}}]}}}}\napi-listeners: [\"{}\", \"{}\", \"{}\", \"{}\", \"@{}\"]\n{}", TCP4, TCP6, TCPDUAL, UNIX_PATH, UNIX_ABSTRACT, OPEN_ACLS);
        let conf = erbium::config::verif_load_config_from_string(&yaml).unwrap_or_else(|e| {
            eprintln!("rig: service configuration rejected: {}\n{}", e, yaml);
            std::process::exit(2)
        });
        let netinfo = erbium_net::netinfo::SharedNetInfo::new().await;
        tokio::time::sleep(std::time::Duration::from_millis(300)).await;
        let dhcp = match erbium::dhcp::DhcpService::new(netinfo.clone(), conf.clone()).await {
            Ok(d) => Arc::new(d),
            Err(e) => {
                eprintln!("rig: cannot start the DHCP service: {}", e);
                std::process::exit(3)
            }
        };
        {
            let d = dhcp.clone();
            tokio::spawn(async move {
                let _ = d.run().await;
            });
        }
        if let Err(e) = erbium::http::run(dhcp.clone(), conf.clone()).await {
            eprintln!("rig: cannot start the API listeners: {}", e);
            std::process::exit(3)
        }
        // the other two frame-facing services
        let ra = match erbium::radv::RaAdvService::new(netinfo.clone(), conf.clone()) {
            Ok(r) => Arc::new(r),
            Err(e) => {
                eprintln!("rig: cannot start the router advertisement service: {}", e);
                std::process::exit(3)
            }
        };
        let ra_task = tokio::spawn(async move {
            let _ = ra.run().await;
        });
        let lldp_task = match erbium::lldp::LldpService::new() {
            Ok(l) => tokio::spawn(async move {
                l.run().await;
            }),
            Err(e) => {
                eprintln!("rig: cannot start the LLDP service: {}", e);
                std::process::exit(3)
            }
        };
        tokio::time::sleep(std::time::Duration::from_millis(100)).await;
        let sock = PacketSock::open("veth1");
        let lease_sock = PacketSock::open("veth3");
        let mut hostile_sent = 0u64;
        let mut xid = 0x1000u32;
        let mut offered: std::collections::HashMap<[u8; 6], [u8; 4]> = Default::default();
        for (ci, case) in cases.iter().enumerate() {
            let rules = case["acls"].as_array().cloned();
            let acls = match &rules {
                Some(r) => crate::acl::render_acls(r),
                None => OPEN_ACLS.to_string(),
            };
            match erbium::config::verif_load_config_from_string(&acls) {
                Ok(l) => {
                    let mut a = conf.write().await;
                    let mut b = l.write().await;
                    std::mem::swap(&mut a.acls, &mut b.acls);
                }
                Err(e) => {
                    out.emit(json!({"ev":"cfg_rejected","case":ci,"err":e.to_string()}));
                    continue;
                }
            }
            out.emit(json!({"ev":"case","case":ci,"open":rules.is_none(),"meta":if case["meta"].is_null() { json!({}) } else { case["meta"].clone() }}));
            // a lease scenario instead of steps: {"lease": scenario}
            if case["lease"].is_object() {
                for e in lease_scenario_svc(&case["lease"], &lease_sock, &conf, base) {
                    out.emit(e);
                }
            }
            for step in case["steps"].as_array().unwrap_or(&vec![]) {
                match step["op"].as_str().unwrap_or("") {
                    "dhcp" => {
                        // one message from a client; the reply (if any) is recorded
                        xid += 1;
                        let chaddr: [u8; 6] = hexbytes(&step["chaddr"]).try_into().unwrap_or([2, 0, 0, 0, 9, 9]);
                        let mut opts: Vec<(u8, Vec<u8>)> = vec![(53, vec![step["mtype"].as_u64().unwrap_or(1) as u8])];
                        if !step["cid"].is_null() {
                            opts.push((61, hexbytes(&step["cid"])));
                        }
                        if !step["host"].is_null() {
                            opts.push((12, hexbytes(&step["host"])));
                        }
                        if let Some(r) = step["req"].as_array() {
                            opts.push((50, r.iter().map(|x| x.as_u64().unwrap() as u8).collect()));
                        } else if step["req"] == "offered" {
                            if let Some(a) = offered.get(&chaddr) {
                                opts.push((50, a.to_vec()));
                            }
                        }
                        if let Some(s) = step["sid"].as_array() {
                            opts.push((54, s.iter().map(|x| x.as_u64().unwrap() as u8).collect()));
                        }
                        opts.push((55, step["plist"].as_array().map(|a| a.iter().map(|x| x.as_u64().unwrap() as u8).collect()).unwrap_or(vec![1, 3, 6, 15, 51, 54])));
                        let flags = step["flags"].as_u64().map(|f| f as u16).unwrap_or(if step["bcast"].as_bool().unwrap_or(true) { 0x8000 } else { 0 });
                        let payload = match step["raw"].as_str() {
                            Some(h) => unhex(h),
                            None => dhcp_msg_flags(xid, &chaddr, flags, [0; 4], &opts),
                        };
                        let frame = udp_frame(chaddr, [0xff; 6], [0, 0, 0, 0], 68, [255, 255, 255, 255], 67, &payload);
                        let reply = tokio::task::block_in_place(|| {
                            sock.flush();
                            if !sock.send(&frame) {
                                return None;
                            }
                            sock.recv_dhcp(step["wait_ms"].as_u64().unwrap_or(800))
                        });
                        let wire: Option<Value>;
                        let mut e = json!({"ev":"dhcp","case":ci,"chaddr":chaddr,"mtype":step["mtype"].as_u64().unwrap_or(1),"xid":xid,"len":payload.len(),"tag":step["tag"].as_str().unwrap_or("")});
                        match reply {
                            Some((eth, p)) => {
                                if p.len() >= 20 && p[16..20] != [0, 0, 0, 0] {
                                    offered.insert(chaddr, [p[16], p[17], p[18], p[19]]);
                                }
                                let rs = reply_summary(&p);
                                e["replied"] = json!(true);
                                e["reply"] = rs.clone();
                                e["dstmac"] = json!(eth[0..6]);
                                e["srcmac_ok"] = json!(eth[6..12] == SERVER_MAC);
                                // the frame as it is on the wire (C12 at service level)
                                let mut w = dissect(&eth);
                                w["ev"] = json!("wireframe");
                                w["replied"] = json!(true);
                                w["flags"] = json!(flags);
                                w["yiaddr"] = rs["yiaddr"].clone();
                                w["chaddr"] = json!(chaddr);
                                w["payload_ok"] = json!(rs["ok"] == true && rs["ended"] == true && rs["xid"] == xid as u64 && rs["op"] == 2);
                                wire = Some(w);
                            }
                            None => {
                                e["replied"] = json!(false);
                                e["reply"] = json!({"ok": false});
                                wire = Some(json!({"ev":"wireframe","replied":false,"flags":flags}));
                            }
                        }
                        out.emit(e);
                        if let Some(w) = wire {
                            out.emit(w);
                        }
                    }
                    "hostile" => {
                        // WireGrammar cases as frames at the three frame-facing services
                        for (i, c) in step["cases"].as_array().unwrap_or(&vec![]).iter().enumerate() {
                            for (k, b) in crate::ingest::build(c) {
                                let frame = match k {
                                    "dhcp" => udp_frame([2, 0, 0, 9, (i >> 8) as u8, i as u8], [0xff; 6], [0, 0, 0, 0], 68, [255, 255, 255, 255], 67, &b),
                                    "rs" | "ra" => icmp6_frame(CLIENT_IF_MAC, SERVER_MAC, CLIENT_LL6.parse().unwrap(), SERVER_LL6.parse().unwrap(), &b),
                                    "lldp" => {
                                        let mut f = vec![1, 0x80, 0xc2, 0, 0, 0x0e];
                                        f.extend(CLIENT_IF_MAC);
                                        f.extend([0x88, 0xcc]);
                                        f.extend(&b);
                                        f
                                    }
                                    _ => continue,
                                };
                                if frame.len() <= 1514 && tokio::task::block_in_place(|| sock.send(&frame)) {
                                    hostile_sent += 1;
                                }
                            }
                            if i % 32 == 31 {
                                tokio::time::sleep(std::time::Duration::from_millis(3)).await;
                            }
                        }
                        tokio::time::sleep(std::time::Duration::from_millis(200)).await;
                    }
                    "probe" => {
                        // a valid request to each service must still be answered
                        xid += 1;
                        let chaddr = [2, 0, 0, 8, (xid >> 8) as u8, xid as u8];
                        let d = dhcp_msg(xid, &chaddr, true, [0; 4], &[(53, vec![1]), (55, vec![1, 3, 6])]);
                        let frame = udp_frame(chaddr, [0xff; 6], [0, 0, 0, 0], 68, [255, 255, 255, 255], 67, &d);
                        let rs = icmp6_frame(CLIENT_IF_MAC, SERVER_MAC, CLIENT_LL6.parse().unwrap(), SERVER_LL6.parse().unwrap(), &[133, 0, 0, 0, 0, 0, 0, 0, 1, 1, 2, 0, 0, 0, 1, 2]);
                        let (dhcp_ok, ra_ok) = tokio::task::block_in_place(|| {
                            sock.flush();
                            let a = sock.send(&frame) && sock.recv_dhcp(2000).map(|(_, p)| p.len() >= 8 && p[4..8] == xid.to_be_bytes()).unwrap_or(false);
                            let b = sock.send(&rs) && sock.recv_match(2000, is_ra).is_some();
                            (a, b)
                        });
                        let alive = !ra_task.is_finished() && !lldp_task.is_finished();
                        let np = {
                            let mut p = PANICS.lock().unwrap();
                            let n = p.len();
                            let first = p.first().cloned().unwrap_or_default();
                            p.clear();
                            (n, first)
                        };
                        let detail = if np.0 > 0 { np.1 } else if !alive { "a service task ended".to_string() } else { format!("dhcp answered: {}, router solicitation answered: {}", dhcp_ok, ra_ok) };
                        out.emit(json!({"ev":"svc","case":ci,"hostile":hostile_sent,"panics":np.0,"alive":alive,"answered":dhcp_ok && ra_ok,"detail":detail}));
                        hostile_sent = 0;
                    }
                    "radv" => {
                        // C17 at service level: the configuration of the case goes live, a router solicitation is sent, and
                        // the advertisement that comes back over the wire is decoded by the harness's RFC decoder
                        let cfg = &step["cfg"];
                        let yaml = crate::radv::render(cfg).replace(" eth0:", " veth0:");
                        let ev = match guarded(|| erbium::config::verif_load_config_from_string(&yaml)) {
                            Err(p) => json!({"ev":"ra","lvl":"svc","cfg":cfg,"load":"panic","err":p,"outcome":"none","ra":{"ok":false,"opts":[]}}),
                            Ok(Err(e)) => json!({"ev":"ra","lvl":"svc","cfg":cfg,"load":"rejected","err":format!("{}", e),"outcome":"none","ra":{"ok":false,"opts":[]}}),
                            Ok(Ok(loaded)) => {
                                {
                                    let mut a = conf.write().await;
                                    let mut b = loaded.write().await;
                                    std::mem::swap(&mut a.ra, &mut b.ra);
                                    std::mem::swap(&mut a.dns_servers, &mut b.dns_servers);
                                    std::mem::swap(&mut a.dns_search, &mut b.dns_search);
                                    std::mem::swap(&mut a.captive_portal, &mut b.captive_portal);
                                }
                                let rs = icmp6_frame(CLIENT_IF_MAC, SERVER_MAC, CLIENT_LL6.parse().unwrap(), SERVER_LL6.parse().unwrap(), &[133, 0, 0, 0, 0, 0, 0, 0, 1, 1, 2, 0, 0, 0, 1, 2]);
                                let got = tokio::task::block_in_place(|| {
                                    sock.flush();
                                    if !sock.send(&rs) {
                                        return None;
                                    }
                                    sock.recv_match(1500, is_ra)
                                });
                                let np = {
                                    let mut p = PANICS.lock().unwrap();
                                    let first = p.first().cloned().unwrap_or_default();
                                    let n = p.len();
                                    p.clear();
                                    (n, first)
                                };
                                match got {
                                    Some(f) => json!({"ev":"ra","lvl":"svc","cfg":cfg,"load":"ok","outcome":"ok","ra":crate::radv::decode(&f[54..]),"hoplimit255":f[21] == 255}),
                                    None if np.0 > 0 => json!({"ev":"ra","lvl":"svc","cfg":cfg,"load":"ok","outcome":"panic","err":np.1,"ra":{"ok":false,"opts":[]}}),
                                    None => json!({"ev":"ra","lvl":"svc","cfg":cfg,"load":"ok","outcome":"noadvertisement","ra":{"ok":false,"opts":[]}}),
                                }
                            }
                        };
                        out.emit(ev);
                        if ra_task.is_finished() {
                            out.emit(json!({"ev":"tool_error","what":"the router advertisement service ended"}));
                        }
                    }
                    "insert" => {
                        // a row as an older version of erbium (or anything else sharing the file) may have left it
                        let r = (|| -> Result<(), String> {
                            let c = rusqlite::Connection::open_with_flags(DB, rusqlite::OpenFlags::SQLITE_OPEN_READ_WRITE).map_err(|e| e.to_string())?;
                            let _ = c.busy_timeout(std::time::Duration::from_secs(2));
                            let opts: Option<Vec<u8>> = step["options"].as_str().map(unhex);
                            let now = now_secs();
                            c.execute("INSERT OR REPLACE INTO leases (address, chaddr, clientid, start, expiry, options) VALUES (?1, ?2, ?3, ?4, ?5, ?6)",
                                      rusqlite::params![step["ip"].as_str().unwrap_or("192.0.2.250"), hexbytes(&step["chaddr"]), hexbytes(&step["cid"]),
                                                        now + step["start"].as_i64().unwrap_or(0), now + step["expiry"].as_i64().unwrap_or(600), opts]).map_err(|e| e.to_string())?;
                            Ok(())
                        })();
                        if let Err(e) = r {
                            out.emit(json!({"ev":"tool_error","what":format!("insert: {}", e)}));
                        }
                    }
                    "age" => {
                        if let Err(e) = sql_age(step["secs"].as_i64().unwrap_or(0)) {
                            out.emit(json!({"ev":"tool_error","what":format!("age: {}", e)}));
                        }
                    }
                    "sleep" => tokio::time::sleep(std::time::Duration::from_millis(step["ms"].as_u64().unwrap_or(100))).await,
                    "http_seq" => {
                        // several requests over one keep-alive connection: each is a decision of its own
                        let paths: Vec<String> = step["paths"].as_array().map(|a| a.iter().map(|p| p.as_str().unwrap_or("/").to_string()).collect()).unwrap_or_default();
                        let listener = step["listener"].as_str().unwrap_or("tcp4");
                        let client = &step["client"];
                        let src = client["src"].as_str().unwrap_or("127.0.0.1");
                        let res = match listener {
                            "tcp4" => http_tcp_seq(TCP4, src, &paths).await,
                            "tcp6" => http_tcp_seq(TCP6, src, &paths).await,
                            "dual4" => http_tcp_seq("127.0.0.1:9969", src, &paths).await,
                            _ => http_tcp_seq("[::1]:9969", src, &paths).await,
                        };
                        if let Some(r) = &rules {
                            for (i, p) in paths.iter().enumerate() {
                                let status = res.get(i).map(|x| x.0).unwrap_or(-1);
                                if perm_of(p) != "other" {
                                    out.emit(json!({"ev":"acl","binding":"http","rules":r,"client":client["abs"],"op":perm_of(p),"outcome": if status == 200 || status == 403 || status == 404 { "ok" } else { "noresponse" },
                                                    "granted": status == 200 || status == 404,"forwarded":false,"answered":status > 0,"status":status,"listener":listener,"path":p,"err":"","panics":0,"first_panic":"",
                                                    "nth_on_connection": i + 1}));
                                }
                            }
                        }
                    }
                    "http" => {
                        let path = step["path"].as_str().unwrap_or("/");
                        let method = step["method"].as_str().unwrap_or("GET");
                        let listener = step["listener"].as_str().unwrap_or("tcp4");
                        let client = &step["client"];
                        let rows_before = sql_rows(base).unwrap_or_default();
                        let t0 = now_secs() - base;
                        let (status, body, err) = match listener {
                            "tcp4" => http_tcp(TCP4, client["src"].as_str().unwrap_or("127.0.0.1"), method, path).await,
                            "tcp6" => http_tcp(TCP6, client["src"].as_str().unwrap_or("::1"), method, path).await,
                            "dual4" => http_tcp("127.0.0.1:9969", client["src"].as_str().unwrap_or("127.0.0.1"), method, path).await,
                            "dual6" => http_tcp("[::1]:9969", client["src"].as_str().unwrap_or("::1"), method, path).await,
                            "unixpath" | "abstract" => {
                                let server = if listener == "unixpath" { UNIX_PATH.to_string() } else { format!("@{}", UNIX_ABSTRACT) };
                                let bind = client["bind"].as_str().map(|s| s.to_string());
                                let (m, p) = (method.to_string(), path.to_string());
                                tokio::task::block_in_place(move || http_unix(&server, bind.as_deref(), &m, &p))
                            }
                            _ => (-1, vec![], "unknown listener".into()),
                        };
                        let t1 = now_secs() - base;
                        let rows_after = sql_rows(base).unwrap_or_default();
                        let np = {
                            let mut p = PANICS.lock().unwrap();
                            let n = p.len();
                            let first = p.first().cloned().unwrap_or_default();
                            p.clear();
                            (n, first)
                        };
                        // the same event shape as the function-level ACL driver, so AclTrace judges it
                        if let Some(r) = rules.as_ref().filter(|_| perm_of(path) != "other") {
                            out.emit(json!({"ev":"acl","binding":"http","rules":r,"client":client["abs"],"op":perm_of(path),"outcome": if status == 200 || status == 403 || status == 404 { "ok" } else { "noresponse" },
                                            "granted": status == 200 || status == 404,"forwarded":false,"answered":status > 0,"status":status,"listener":listener,"path":path,"err":err,"panics":np.0,"first_panic":np.1}));
                        }
                        if path == "/api/v1/leases.json" && method == "GET" {
                            let text = String::from_utf8_lossy(&body).to_string();
                            let parsed: Result<Value, _> = serde_json::from_slice(&body);
                            let entries: Vec<Value> = match &parsed {
                                Ok(v) => v["leases"].as_array().map(|a| a.iter().map(|l| {
                                    let ip: std::net::Ipv4Addr = l["ip"].as_str().unwrap_or("").parse().unwrap_or(std::net::Ipv4Addr::UNSPECIFIED);
                                    let cid: Vec<u8> = l["client_id"].as_str().unwrap_or("").split(':').filter(|x| !x.is_empty()).map(|x| u8::from_str_radix(x, 16).unwrap_or(0)).collect();
                                    json!([ip.octets(), digest(&cid), cid.len(), l["start"].as_i64().unwrap_or(i64::MIN / 4) - base, l["expire"].as_i64().unwrap_or(i64::MIN / 4) - base])
                                }).collect()).unwrap_or_default(),
                                Err(_) => vec![],
                            };
                            out.emit(json!({"ev":"listing","case":ci,"status":status,"json_ok":parsed.is_ok(),"json_err":parsed.as_ref().err().map(|e| e.to_string()).unwrap_or_default(),
                                            "has_leases_array":parsed.as_ref().map(|v| v["leases"].is_array()).unwrap_or(false),
                                            "entries":entries,"rows":rows_before,"stable":rows_before == rows_after,"tag":step["tag"].as_str().unwrap_or(""),
                                            "body": if parsed.is_ok() { String::new() } else { text.chars().take(600).collect::<String>() }}));
                        }
                        if path == "/metrics" && method == "GET" && status == 200 {
                            let text = String::from_utf8_lossy(&body).to_string();
                            out.emit(json!({"ev":"gauges","case":ci,"active":metric(&text, "dhcp_active_leases"),"expired":metric(&text, "dhcp_expired_leases"),
                                            "expiries":rows_before.iter().map(|r| r[4].clone()).collect::<Vec<_>>(),"t0":t0,"t1":t1,"stable":rows_before == rows_after,"tag":step["tag"].as_str().unwrap_or("")}));
                        }
                    }
                    _ => {}
                }
            }
            let np = {
                let mut p = PANICS.lock().unwrap();
                let n = p.len();
                let first = p.first().cloned().unwrap_or_default();
                p.clear();
                (n, first)
            };
            out.emit(json!({"ev":"endcase","case":ci,"panics":np.0,"first_panic":np.1,"frames_never_counted_by_the_service":UNCOUNTED.load(std::sync::atomic::Ordering::SeqCst)}));
            out.flush();
        }
    });
    let n = out.finish();
    eprintln!("rig full: {} cases, {} events", cases.len(), n);
    std::process::exit(0);
}

#[allow(dead_code)]
fn unused() {
    let _ = CLIENT_IF_MAC;
}
