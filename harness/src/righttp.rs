//! HTTP part of the rig (C08 HTTP binding, C20 service level) -- built after the DNS part.
pub fn http(_args: &[String]) {
    eprintln!("rig http: not built yet");
    std::process::exit(2)
}
