//! An independent DNS message walker (RFC 1035 / 6891) used to project wire
//! bytes onto abstract records.  It does not use the crate's decoder.
use serde_json::{Value, json};

pub fn digest(b: &[u8]) -> i64 {
    let mut h: u64 = 0xcbf29ce484222325;
    for x in b {
        h ^= *x as u64;
        h = h.wrapping_mul(0x100000001b3);
    }
    (h % (1 << 30)) as i64
}

#[derive(Clone, Debug, PartialEq)]
pub struct Rec {
    pub name: Vec<Vec<u8>>,
    pub rtype: u16,
    pub class: u16,
    pub ttl: u32,
    /// rdata with embedded names expanded to uncompressed wire form
    pub rdata: Vec<u8>,
    pub end: usize,
}

#[derive(Default, Debug)]
pub struct Walk {
    pub ok: bool,
    pub why: String,
    pub id: u16,
    pub flags: u16,
    pub counts: [u16; 4],
    pub qname: Vec<Vec<u8>>,
    pub qtype: u16,
    pub qclass: u16,
    pub qend: usize,
    pub secs: [Vec<Rec>; 3],
    /// every literal label start: (offset, digest of the name suffix starting there)
    pub writes: Vec<(usize, i64)>,
    /// every compression pointer: (offset of the pointer, target, digest of the suffix it expands to)
    pub ptrs: Vec<(usize, usize, i64)>,
    pub len: usize,
    pub trailing: usize,
}

fn name_wire(labels: &[Vec<u8>]) -> Vec<u8> {
    let mut o = vec![];
    for l in labels {
        o.push(l.len() as u8);
        o.extend(l);
    }
    o.push(0);
    o
}
pub fn name_digest(labels: &[Vec<u8>]) -> i64 {
    digest(&name_wire(labels))
}

struct W<'a> {
    b: &'a [u8],
    writes: Vec<(usize, usize)>, // (offset, labels-following count placeholder)
    ptrs: Vec<(usize, usize)>,
}

impl<'a> W<'a> {
    /// read a name at `pos`; returns (labels, position after the name in the linear stream)
    fn name(&mut self, pos: usize, record: bool) -> Result<(Vec<Vec<u8>>, usize), String> {
        let mut labels = vec![];
        let mut p = pos;
        let mut after: Option<usize> = None;
        let mut hops = 0;
        let mut starts: Vec<usize> = vec![];
        loop {
            let c = *self.b.get(p).ok_or("name runs past the end")? as usize;
            if c == 0 {
                p += 1;
                break;
            } else if c & 0xc0 == 0xc0 {
                let lo = *self.b.get(p + 1).ok_or("pointer runs past the end")? as usize;
                let target = ((c & 0x3f) << 8) | lo;
                if record && after.is_none() {
                    self.ptrs.push((p, target));
                }
                if after.is_none() {
                    after = Some(p + 2);
                }
                if target >= p {
                    return Err(format!("pointer at {} does not point backwards ({})", p, target));
                }
                hops += 1;
                if hops > 130 {
                    return Err("pointer loop".into());
                }
                p = target;
            } else if c & 0xc0 == 0 {
                if p + 1 + c > self.b.len() {
                    return Err("label runs past the end".into());
                }
                if record && after.is_none() {
                    starts.push(p);
                }
                labels.push(self.b[p + 1..p + 1 + c].to_vec());
                p += 1 + c;
            } else {
                return Err(format!("unsupported label type {:x}", c));
            }
        }
        for s in starts {
            self.writes.push((s, 0));
        }
        Ok((labels, after.unwrap_or(p)))
    }
}

/// suffix of a name starting at offset `at` (following pointers), for digests
fn suffix_at(b: &[u8], at: usize) -> Option<Vec<Vec<u8>>> {
    let mut w = W { b, writes: vec![], ptrs: vec![] };
    w.name(at, false).ok().map(|x| x.0)
}

pub fn walk(b: &[u8]) -> Walk {
    let mut out = Walk { len: b.len(), ..Default::default() };
    if b.len() < 12 {
        out.why = "shorter than a header".into();
        return out;
    }
    let u16at = |o: usize| u16::from_be_bytes([b[o], b[o + 1]]);
    out.id = u16at(0);
    out.flags = u16at(2);
    out.counts = [u16at(4), u16at(6), u16at(8), u16at(10)];
    let mut w = W { b, writes: vec![], ptrs: vec![] };
    let mut pos = 12;
    let r: Result<(), String> = (|| {
        if out.counts[0] != 1 {
            return Err(format!("qdcount {}", out.counts[0]));
        }
        let (qn, p) = w.name(pos, true)?;
        out.qname = qn;
        pos = p;
        if pos + 4 > b.len() {
            return Err("question runs past the end".into());
        }
        out.qtype = u16at(pos);
        out.qclass = u16at(pos + 2);
        pos += 4;
        out.qend = pos;
        for s in 0..3 {
            for _ in 0..out.counts[s + 1] {
                let (name, p) = w.name(pos, true)?;
                pos = p;
                if pos + 10 > b.len() {
                    return Err("record header runs past the end".into());
                }
                let rtype = u16at(pos);
                let class = u16at(pos + 2);
                let ttl = u32::from_be_bytes([b[pos + 4], b[pos + 5], b[pos + 6], b[pos + 7]]);
                let rdlen = u16at(pos + 8) as usize;
                pos += 10;
                if pos + rdlen > b.len() {
                    return Err("rdata runs past the end".into());
                }
                let rend = pos + rdlen;
                // expand names inside rdata for the types RFC 1035/1183/2915 define with names
                let mut rd = vec![];
                let mut q = pos;
                let mut names = |w: &mut W, q: &mut usize, rd: &mut Vec<u8>| -> Result<(), String> {
                    let (n, p) = w.name(*q, true)?;
                    if p > rend {
                        return Err("name in rdata runs past rdlength".into());
                    }
                    rd.extend(name_wire(&n));
                    *q = p;
                    Ok(())
                };
                match rtype {
                    2 | 5 | 12 => names(&mut w, &mut q, &mut rd)?,
                    15 | 18 | 21 => {
                        if q + 2 > rend {
                            return Err("short rdata".into());
                        }
                        rd.extend(&b[q..q + 2]);
                        q += 2;
                        names(&mut w, &mut q, &mut rd)?;
                    }
                    17 => {
                        names(&mut w, &mut q, &mut rd)?;
                        names(&mut w, &mut q, &mut rd)?;
                    }
                    6 => {
                        names(&mut w, &mut q, &mut rd)?;
                        names(&mut w, &mut q, &mut rd)?;
                        if q + 20 > rend {
                            return Err("short SOA".into());
                        }
                        rd.extend(&b[q..q + 20]);
                        q += 20;
                    }
                    35 => {
                        if q + 4 > rend {
                            return Err("short NAPTR".into());
                        }
                        rd.extend(&b[q..q + 4]);
                        q += 4;
                        for _ in 0..3 {
                            let l = *b.get(q).ok_or("short NAPTR string")? as usize;
                            if q + 1 + l > rend {
                                return Err("short NAPTR string".into());
                            }
                            rd.extend(&b[q..q + 1 + l]);
                            q += 1 + l;
                        }
                        names(&mut w, &mut q, &mut rd)?;
                    }
                    _ => {
                        rd.extend(&b[pos..rend]);
                        q = rend;
                    }
                }
                if q != rend {
                    return Err(format!("rdata of type {} is {} octets but rdlength says {}", rtype, q - pos, rdlen));
                }
                pos = rend;
                out.secs[s].push(Rec { name, rtype, class, ttl, rdata: rd, end: pos });
            }
        }
        Ok(())
    })();
    out.trailing = b.len() - pos.min(b.len());
    match r {
        Ok(()) => {
            out.ok = out.trailing == 0;
            if !out.ok {
                out.why = format!("{} octets after the last record", out.trailing);
            }
        }
        Err(e) => out.why = e,
    }
    out.writes = w.writes.iter().map(|(o, _)| (*o, suffix_at(b, *o).map(|n| name_digest(&n)).unwrap_or(-1))).collect();
    out.ptrs = w.ptrs.iter().map(|(o, t)| (*o, *t, suffix_at(b, *t).map(|n| name_digest(&n)).unwrap_or(-1))).collect();
    out
}

pub fn rec_json(r: &Rec) -> Value {
    json!([name_digest(&r.name), r.rtype, r.class, (r.ttl >> 16), (r.ttl & 0xffff), r.rdata.len(), digest(&r.rdata)])
}

/// The harness's own encoder for a query (RFC 1035 + 6891): no compression.
#[allow(clippy::too_many_arguments)]
pub fn build_query(id: u16, rd: bool, cd: bool, ad: bool, name: &[Vec<u8>], qtype: u16, qclass: u16, edns: Option<(u16, bool, Vec<(u16, Vec<u8>)>)>) -> Vec<u8> {
    let mut b = vec![];
    b.extend(id.to_be_bytes());
    let flags: u16 = ((rd as u16) << 8) | ((ad as u16) << 5) | ((cd as u16) << 4);
    b.extend(flags.to_be_bytes());
    b.extend(1u16.to_be_bytes());
    b.extend(0u16.to_be_bytes());
    b.extend(0u16.to_be_bytes());
    b.extend((edns.is_some() as u16).to_be_bytes());
    for l in name {
        b.push(l.len() as u8);
        b.extend(l);
    }
    b.push(0);
    b.extend(qtype.to_be_bytes());
    b.extend(qclass.to_be_bytes());
    if let Some((bufsize, dobit, opts)) = edns {
        b.push(0);
        b.extend(41u16.to_be_bytes());
        b.extend(bufsize.to_be_bytes());
        b.extend((((dobit as u32) << 15)).to_be_bytes());
        let mut rd = vec![];
        for (c, v) in opts {
            rd.extend(c.to_be_bytes());
            rd.extend((v.len() as u16).to_be_bytes());
            rd.extend(v);
        }
        b.extend((rd.len() as u16).to_be_bytes());
        b.extend(rd);
    }
    b
}

pub fn lower(name: &[Vec<u8>]) -> Vec<Vec<u8>> {
    name.iter().map(|l| l.iter().map(|c| c.to_ascii_lowercase()).collect()).collect()
}
