//! C12 driver: DHCP messages and frames on the wire.  The projections here
//! (TLV walker, Ethernet/IPv4/UDP splitter, digests) are the harness's own and
//! do not use the crate's decoder.
use crate::util::*;
use erbium::dhcp::dhcppkt;
use serde_json::{Value, json};
use std::net::Ipv4Addr;

fn digest(b: &[u8]) -> i64 {
    let mut h: u64 = 0xcbf29ce484222325;
    for x in b {
        h ^= *x as u64;
        h = h.wrapping_mul(0x100000001b3);
    }
    (h % (1 << 30)) as i64
}
fn w32(x: u32) -> (i64, i64) {
    ((x >> 16) as i64, (x & 0xffff) as i64)
}

fn hdr_of(op: u8, htype: u8, hlen: u8, hops: u8, xid: u32, secs: u16, flags: u16, ci: u32, yi: u32, si: u32, gi: u32, chaddr: &[u8], sname: &[u8], file: &[u8]) -> Value {
    let (x1, x2) = w32(xid);
    let (c1, c2) = w32(ci);
    let (y1, y2) = w32(yi);
    let (s1, s2) = w32(si);
    let (g1, g2) = w32(gi);
    json!([op, htype, hlen, hops, x1, x2, secs, flags, c1, c2, y1, y2, s1, s2, g1, g2,
           chaddr.len(), digest(chaddr), sname.len(), digest(sname), file.len(), digest(file)])
}
fn trunc_nul(v: &[u8]) -> &[u8] {
    match v.iter().position(|b| *b == 0) {
        Some(i) => &v[..i],
        None => v,
    }
}

/// Independent walk of an encoded DHCP message.
fn walk(b: &[u8]) -> Value {
    if b.len() < 240 || b[236..240] != [0x63, 0x82, 0x53, 0x63] {
        return json!({"ok":false,"why":"short or bad magic","hdr":[],"chunks":[],"pads":0,"opts":[]});
    }
    let be32 = |o: usize| u32::from_be_bytes([b[o], b[o + 1], b[o + 2], b[o + 3]]);
    let hlen = b[2] as usize;
    let chaddr = &b[28..28 + hlen.min(16)];
    let hdr = hdr_of(b[0], b[1], b[2], b[3], be32(4), u16::from_be_bytes([b[8], b[9]]), u16::from_be_bytes([b[10], b[11]]),
                     be32(12), be32(16), be32(20), be32(24), chaddr, trunc_nul(&b[44..108]), trunc_nul(&b[108..236]));
    let mut i = 240;
    let mut chunks = Vec::new();
    let mut pads = 0;
    let mut vals: std::collections::BTreeMap<u8, Vec<u8>> = Default::default();
    let mut ok = false;
    let mut why = "no END";
    while i < b.len() {
        let c = b[i];
        if c == 0 {
            pads += 1;
            i += 1;
            continue;
        }
        if c == 255 {
            ok = i + 1 == b.len();
            why = if ok { "" } else { "octets after END" };
            break;
        }
        if i + 1 >= b.len() {
            why = "truncated length";
            break;
        }
        let l = b[i + 1] as usize;
        if i + 2 + l > b.len() {
            why = "truncated value";
            break;
        }
        chunks.push(json!([c, l]));
        vals.entry(c).or_default().extend_from_slice(&b[i + 2..i + 2 + l]);
        i += 2 + l;
    }
    // the hlen octet must be consistent with what a decoder can hold
    if hlen > 16 {
        ok = false;
        why = "hlen > 16";
    }
    let opts: Vec<Value> = vals.iter().map(|(c, v)| json!([c, v.len(), digest(v)])).collect();
    json!({"ok":ok,"why":why,"hdr":hdr,"chunks":chunks,"pads":pads,"opts":opts})
}

fn opts_of(o: &dhcppkt::DhcpOptions) -> Value {
    let mut v: Vec<(u8, usize, i64)> = o.other.iter().map(|(k, v)| (u8_of_option(k), v.len(), digest(v))).collect();
    v.sort();
    Value::Array(v.into_iter().map(|(c, l, d)| json!([c, l, d])).collect())
}
fn u8_of_option(o: &dhcppkt::DhcpOption) -> u8 {
    let mut v = Vec::new();
    use dhcppkt::Serialise;
    o.serialise(&mut v);
    v[0]
}

struct Plain {
    op: u8,
    htype: u8,
    hlen: u8,
    hops: u8,
    xid: u32,
    secs: u16,
    flags: u16,
    ci: u32,
    yi: u32,
    si: u32,
    gi: u32,
    chaddr: Vec<u8>,
    sname: Vec<u8>,
    file: Vec<u8>,
    opts: Vec<(u8, Vec<u8>)>,
}

/// Build a `Dhcp` value only through the crate's own decoder (op/htype are
/// opaque types), from a minimal hand-assembled header; options are then set
/// through the public map.
fn to_msg(p: &Plain) -> Option<dhcppkt::Dhcp> {
    let mut b = vec![p.op, p.htype, p.hlen, p.hops];
    b.extend(p.xid.to_be_bytes());
    b.extend(p.secs.to_be_bytes());
    b.extend(p.flags.to_be_bytes());
    for a in [p.ci, p.yi, p.si, p.gi] {
        b.extend(a.to_be_bytes());
    }
    let mut ch = p.chaddr.clone();
    ch.resize(16, 0);
    b.extend(ch);
    let mut sn = p.sname.clone();
    sn.resize(64, 0);
    b.extend(sn);
    let mut fl = p.file.clone();
    fl.resize(128, 0);
    b.extend(fl);
    b.extend([0x63, 0x82, 0x53, 0x63, 255]);
    let mut m = dhcppkt::parse(&b).ok()?;
    for (c, v) in &p.opts {
        m.options.other.insert(dhcppkt::DhcpOption::new(*c), v.clone());
    }
    Some(m)
}

fn rand_plain(rng: &mut Rng, opts: Vec<(u8, Vec<u8>)>) -> Plain {
    let hlen = *rng.pick(&[0u8, 1, 5, 6, 6, 6, 8, 15, 16]);
    let nonzero = |rng: &mut Rng, n: usize| -> Vec<u8> { (0..n).map(|_| 1 + rng.below(255) as u8).collect() };
    Plain {
        op: *rng.pick(&[1u8, 2, 0, 255]),
        htype: *rng.pick(&[1u8, 6, 0, 255]),
        hlen,
        hops: rng.below(256) as u8,
        xid: rng.pick_or(&[0u32, 1, 0xffff_ffff, 0x8000_0000], |r| r as u32),
        secs: rng.pick_or(&[0u16, 1, 0xffff], |r| r as u16),
        flags: rng.pick_or(&[0u16, 0x8000, 0x0080, 0xffff], |r| r as u16),
        ci: rng.next() as u32,
        yi: rng.pick_or(&[0u32, 0xffff_ffff], |r| r as u32),
        si: rng.next() as u32,
        gi: rng.pick_or(&[0u32], |r| r as u32),
        chaddr: (0..hlen).map(|_| rng.next() as u8).collect(),
        sname: { let n = *rng.pick(&[0usize, 1, 10, 63, 64]); nonzero(rng, n) },
        file: { let n = *rng.pick(&[0usize, 1, 20, 127, 128]); nonzero(rng, n) },
        opts,
    }
}

fn rt_event(p: &Plain, src: &str) -> Value {
    let m = match to_msg(p) {
        Some(m) => m,
        None => return json!({"ev":"skip","why":"seed header rejected by the decoder"}),
    };
    let mut mo: Vec<(u8, usize, i64)> = p.opts.iter().map(|(c, v)| (*c, v.len(), digest(v))).collect();
    mo.sort();
    let mh = hdr_of(p.op, p.htype, p.hlen, p.hops, p.xid, p.secs, p.flags, p.ci, p.yi, p.si, p.gi, &p.chaddr, &p.sname, &p.file);
    let mj = json!({"hdr": mh, "opts": mo.iter().map(|(c, l, d)| json!([c, l, d])).collect::<Vec<_>>()});
    match guarded(|| m.serialise()) {
        Err(p) => json!({"ev":"dhcp_rt","src":src,"m":mj,"ser":"panic","err":p,"len":0,
                         "walk":{"ok":false,"hdr":[],"chunks":[],"pads":0,"opts":[]},"crate":{"outcome":"skipped","hdr":[],"opts":[]}}),
        Ok(bytes) => {
            let w = walk(&bytes);
            let c = match guarded(|| dhcppkt::parse(&bytes)) {
                Ok(Ok(d)) => {
                    // op/htype are opaque newtypes: take the octets from the wire and require equality with the original values
                    let dh = hdr_of(bytes[0], bytes[1], d.hlen, d.hops, d.xid, d.secs, d.flags,
                                    u32::from(d.ciaddr), u32::from(d.yiaddr), u32::from(d.siaddr), u32::from(d.giaddr), &d.chaddr, &d.sname, &d.file);
                    let same_opaque = d.op == m.op && d.htype == m.htype;
                    json!({"outcome":"ok","hdr": if same_opaque { dh } else { json!(["op/htype differ"]) },"opts":opts_of(&d.options), "eq": d == m})
                }
                Ok(Err(e)) => json!({"outcome":"err","err":format!("{}", e),"hdr":[],"opts":[]}),
                Err(p) => json!({"outcome":"panic","err":p,"hdr":[],"opts":[]}),
            };
            json!({"ev":"dhcp_rt","src":src,"m":mj,"ser":"ok","len":bytes.len(),"walk":w,"crate":c})
        }
    }
}
fn value_bytes(rng: &mut Rng, n: usize) -> Vec<u8> {
    match rng.below(4) {
        0 => vec![0u8; n],
        1 => vec![255u8; n],
        2 => (0..n).map(|i| i as u8).collect(),
        _ => rng.bytes(n),
    }
}

fn dhcp(args: &[String]) {
    let cases = read_ndjson(&arg(args, "--cases").expect("--cases"));
    let mut out = Trace::create(&arg(args, "--out").expect("--out"));
    let mut rng = Rng::new(arg_u64(args, "--seed", 1));
    let nrand = arg_u64(args, "--rand", 200);
    quiet_panics();
    for c in &cases {
        let opts: Vec<(u8, Vec<u8>)> = c["opts"].as_array().unwrap().iter()
            .map(|o| (o[0].as_u64().unwrap() as u8, value_bytes(&mut rng, o[1].as_u64().unwrap() as usize))).collect();
        let p = rand_plain(&mut rng, opts);
        out.emit(rt_event(&p, "tlc"));
    }
    // seeded random option multisets
    for _ in 0..nrand {
        let n = rng.below(8) as usize;
        let mut opts: std::collections::BTreeMap<u8, Vec<u8>> = Default::default();
        for _ in 0..n {
            let code = 1 + rng.below(254) as u8;
            let len = *rng.pick(&[0usize, 1, 2, 3, 4, 17, 100, 254, 255, 256, 257, 300, 510, 511, 1000, 1500]);
            opts.insert(code, value_bytes(&mut rng, len));
        }
        let p = rand_plain(&mut rng, opts.into_iter().collect());
        out.emit(rt_event(&p, "rand"));
    }
    // messages from the decoder's image: hand-built streams with repeated codes, pads, interleaving
    for _ in 0..nrand {
        let mut b = vec![1u8, 1, 6, 0];
        b.extend(rng.bytes(24));
        let mut ch = rng.bytes(6);
        ch.resize(16, 0);
        b.extend(ch);
        b.extend(vec![0u8; 192]);
        b.extend([0x63, 0x82, 0x53, 0x63]);
        let k = rng.below(10);
        for _ in 0..k {
            match rng.below(5) {
                0 => b.push(0),
                _ => {
                    let code = *rng.pick(&[12u8, 12, 43, 61, 81, 250]);
                    let l = *rng.pick(&[0usize, 1, 3, 100, 255]);
                    b.push(code);
                    b.push(l as u8);
                    b.extend(rng.bytes(l));
                }
            }
        }
        b.push(255);
        if let Ok(Ok(d)) = guarded(|| dhcppkt::parse(&b)) {
            let mut opts: Vec<(u8, Vec<u8>)> = d.options.other.iter().map(|(k, v)| (u8_of_option(k), v.clone())).collect();
            opts.sort();
            let p = Plain { op: b[0], htype: b[1], hlen: d.hlen, hops: d.hops, xid: d.xid, secs: d.secs, flags: d.flags,
                            ci: d.ciaddr.into(), yi: d.yiaddr.into(), si: d.siaddr.into(), gi: d.giaddr.into(),
                            chaddr: d.chaddr.clone(), sname: d.sname.clone(), file: d.file.clone(), opts };
            out.emit(rt_event(&p, "image"));
        }
    }
    let n = out.finish();
    eprintln!("wire dhcp: {} events", n);
}

/// Independent Ethernet/IPv4/UDP splitter.
fn split_frame(f: &[u8], payload: &[u8]) -> Value {
    if f.len() < 42 {
        return json!({"parsed":false});
    }
    let w = |o: usize| u16::from_be_bytes([f[o], f[o + 1]]) as i64;
    let ipwords: Vec<i64> = (0..10).map(|i| w(14 + 2 * i)).collect();
    let udpwords: Vec<i64> = (0..4).map(|i| w(34 + 2 * i)).collect();
    let pay = &f[42..];
    let mut paysum: i64 = 0;
    let mut i = 0;
    while i + 1 < pay.len() {
        paysum += u16::from_be_bytes([pay[i], pay[i + 1]]) as i64;
        i += 2;
    }
    if i < pay.len() {
        paysum += (pay[i] as i64) << 8;
    }
    json!({"parsed":true,"framelen":f.len(),"dmac":f[0..6],"smac":f[6..12],"ethertype":w(12),
           "version":f[14] >> 4,"ihl":f[14] & 15,"iplen":w(16),"proto":f[23],"ipwords":ipwords,
           "src":f[26..30],"dst":f[30..34],"srcw":[w(26),w(28)],"dstw":[w(30),w(32)],
           "sport":w(34),"dport":w(36),"udplen":w(38),"udpwords":udpwords,"paysum":paysum,"payload_eq":pay == payload})
}

fn frame(args: &[String]) {
    let mut out = Trace::create(&arg(args, "--out").expect("--out"));
    let mut rng = Rng::new(arg_u64(args, "--seed", 1));
    let all = args.iter().any(|a| a == "--all");
    quiet_panics();
    let lens: Vec<usize> = if all {
        (0..=1472).collect()
    } else {
        let mut v = vec![0, 1, 2, 3, 4, 5, 239, 240, 241, 299, 300, 301, 547, 548, 549, 1023, 1024, 1025, 1470, 1471, 1472];
        for _ in 0..60 {
            v.push(rng.below(1473) as usize);
        }
        v
    };
    // directed cases: the last payload word is chosen so that the 32-bit
    // one's-complement sum S of pseudo header + UDP header + payload has
    // (S >> 16) + (S & 0xffff) >= 0x10000 (a second carry when folding), or
    // folds to exactly 0xffff (computed checksum 0).
    let mut cases: Vec<(usize, Option<u32>)> = lens.into_iter().map(|n| (n, None)).collect();
    for i in 0..(if all { 400 } else { 60 }) {
        cases.push((*rng.pick(&[4usize, 64, 300, 301, 548, 1472]), Some(i % 3)));
    }
    for (n, directed) in cases {
        let mut payload = match rng.below(4) {
            0 => vec![0u8; n],
            1 => vec![0xffu8; n],
            2 => vec![0xa5u8; n],
            _ => rng.bytes(n),
        };
        let src = Ipv4Addr::from(rng.pick_or(&[0u32, 0xffff_ffff, 0xc000_0201], |r| r as u32));
        let dst = Ipv4Addr::from(rng.pick_or(&[0xffff_ffffu32, 0, 0x0a00_0001], |r| r as u32));
        let sport = rng.pick_or(&[67u16, 0, 65535], |r| r as u16);
        let dport = rng.pick_or(&[68u16, 0, 65535], |r| r as u16);
        let smac: [u8; 6] = rng.bytes(6).try_into().unwrap();
        let dmac: [u8; 6] = if rng.chance(1, 3) { [0xff; 6] } else { rng.bytes(6).try_into().unwrap() };
        if let Some(kind) = directed {
            let even = n & !1;
            payload[even - 2] = 0;
            payload[even - 1] = 0;
            let mut s0: u32 = 0;
            let mut add = |b: &[u8]| {
                let mut i = 0;
                while i + 1 < b.len() {
                    s0 += u16::from_be_bytes([b[i], b[i + 1]]) as u32;
                    i += 2;
                }
                if i < b.len() {
                    s0 += (b[i] as u32) << 8;
                }
            };
            add(&src.octets());
            add(&dst.octets());
            add(&[0, 17]);
            add(&((8 + n) as u16).to_be_bytes());
            add(&sport.to_be_bytes());
            add(&dport.to_be_bytes());
            add(&((8 + n) as u16).to_be_bytes());
            add(&payload);
            let hi = (s0 >> 16) + 1;
            // desired low half after adding the adjust word
            let want_lo: u32 = match kind {
                0 => 0x10000 - hi.min(0xffff),          // smallest value that still carries twice
                1 => 0xffff,                            // largest
                _ => (0xffff_u32).wrapping_sub(s0 >> 16) & 0xffff, // folds to 0xffff: checksum 0
            };
            let adj = want_lo.wrapping_sub(s0 & 0xffff) & 0xffff;
            payload[even - 2] = (adj >> 8) as u8;
            payload[even - 1] = adj as u8;
        }
        let r = guarded(|| {
            erbium_net::packet::Fragment::new_udp4(
                std::net::SocketAddrV4::new(src, sport).into(),
                &smac,
                std::net::SocketAddrV4::new(dst, dport).into(),
                &dmac,
                erbium_net::packet::Tail::Payload(&payload),
            )
            .flatten()
        });
        let (build, f) = match &r {
            Ok(b) => ("ok", split_frame(b, &payload)),
            Err(_) => ("panic", json!({"parsed":false})),
        };
        out.emit(json!({"ev":"frame","n":n,"directed":directed.map(|k| k as i64).unwrap_or(-1),"src":src.octets(),"dst":dst.octets(),"sport":sport,"dport":dport,"smac":smac,"dmac":dmac,"build":build,"f":f}));
    }
    let n = out.finish();
    eprintln!("wire frame: {} events", n);
}

fn bcast(args: &[String]) {
    let mut out = Trace::create(&arg(args, "--out").expect("--out"));
    let mut rng = Rng::new(arg_u64(args, "--seed", 1));
    let all = args.iter().any(|a| a == "--all");
    quiet_panics();
    let mut flags: Vec<u16> = if all { (0..=65535u32).map(|x| x as u16).collect() } else {
        let mut v: Vec<u16> = (0..16).map(|i| 1u16 << i).collect();
        v.extend((0..16).map(|i| !(1u16 << i)));
        v.extend([0, 0xffff, 0x7fff, 0x8000, 0x8001, 0x0080, 0x8080, 0x00ff, 0xff00, 0x7f7f]);
        for _ in 0..300 {
            v.push(rng.next() as u16);
        }
        v
    };
    flags.dedup();
    let seed = Plain { op: 1, htype: 1, hlen: 6, hops: 0, xid: 1, secs: 0, flags: 0, ci: 0, yi: 0, si: 0, gi: 0, chaddr: vec![2, 0, 0, 0, 0, 1], sname: vec![], file: vec![], opts: vec![] };
    let mut m = to_msg(&seed).expect("seed message");
    for f in flags {
        m.flags = f;
        let flag = guarded(|| m.get_broadcast_flag()).unwrap_or(false);
        out.emit(json!({"ev":"bcast","flags":f,"flag":flag}));
    }
    let n = out.finish();
    eprintln!("wire bcast: {} events", n);
}

pub fn main(args: &[String]) {
    match args.first().map(|s| s.as_str()) {
        Some("dhcp") => dhcp(&args[1..]),
        Some("frame") => frame(&args[1..]),
        Some("bcast") => bcast(&args[1..]),
        _ => {
            eprintln!("usage: wire dhcp|frame|bcast ...");
            std::process::exit(2)
        }
    }
}
