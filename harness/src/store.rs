//! C18 drivers: the lease database across restarts, schema upgrades and crashes.
//!   files  construct every file state the DhcpStore model can reach (and v0
//!          databases with arbitrary rows) with the harness's own connection,
//!          hand each to the real `Pool` open, record outcome and file after
//!   split  run each scenario uninterrupted and with a close/reopen inserted
//!          at a split point; record both reply sequences side by side
//!   kill   SIGKILL a child that opens the store and allocates continuously;
//!          reopen and record acknowledged leases vs rows
use crate::util::*;
use erbium::dhcp::pool;
use serde_json::{Value, json};
use std::io::{BufRead, Write};

fn addr_text(x: i64) -> String {
    std::net::Ipv4Addr::from(0x0A00_0000u32 + x as u32).to_string()
}
fn digest(b: &[u8]) -> i64 {
    let mut h: u64 = 0xcbf29ce484222325;
    for x in b {
        h ^= *x as u64;
        h = h.wrapping_mul(0x100000001b3);
    }
    (h % (1 << 30)) as i64
}

const V0_LEASES: &str = "CREATE TABLE leases (address TEXT NOT NULL, chaddr BLOB, clientid BLOB, start INTEGER NOT NULL, expiry INTEGER NOT NULL, PRIMARY KEY (address))";
const V1_LEASES: &str = "CREATE TABLE leases (address TEXT NOT NULL, chaddr BLOB, clientid BLOB, start INTEGER NOT NULL, expiry INTEGER NOT NULL, options BLOB, PRIMARY KEY (address))";
const SV_TABLE: &str = "CREATE TABLE schema_version (key TEXT NOT NULL, version INTEGER NOT NULL, PRIMARY KEY (key))";

/// Abstract file state as the harness itself reads it back.
fn inspect(path: &std::path::Path) -> Value {
    let conn = match rusqlite::Connection::open(path) {
        Ok(c) => c,
        Err(_) => return json!({"sv":"unreadable","shape":"unreadable","rows":[]}),
    };
    let has = |t: &str| -> bool {
        conn.query_row("SELECT count(*) FROM sqlite_master WHERE type='table' AND name=?1", rusqlite::params![t], |r| r.get::<_, i64>(0)).unwrap_or(0) > 0
    };
    let sv = if !has("schema_version") {
        "none".to_string()
    } else {
        match conn.query_row("SELECT version FROM schema_version WHERE key='pool'", [], |r| r.get::<_, i64>(0)) {
            Ok(v) => format!("v{}", v),
            Err(_) => "empty".to_string(),
        }
    };
    let (shape, rows) = if !has("leases") {
        ("absent".to_string(), vec![])
    } else {
        let cols: Vec<String> = conn
            .prepare("PRAGMA table_info(leases)")
            .and_then(|mut s| s.query_map([], |r| r.get::<_, String>(1))?.collect())
            .unwrap_or_default();
        let shape = if cols.iter().any(|c| c == "options") { "v1" } else { "v0" };
        let rows: Vec<Value> = conn
            .prepare("SELECT address, clientid, start, expiry FROM leases ORDER BY address")
            .and_then(|mut s| {
                s.query_map([], |r| Ok((r.get::<_, String>(0)?, r.get::<_, Option<Vec<u8>>>(1)?, r.get::<_, i64>(2)?, r.get::<_, i64>(3)?)))?
                    .collect::<Result<Vec<_>, _>>()
            })
            .unwrap_or_default()
            .into_iter()
            .map(|(a, c, s, e)| json!([digest(a.as_bytes()), c.as_ref().map(|c| digest(c)).unwrap_or(-1), s, e]))
            .collect();
        (shape.to_string(), rows)
    };
    json!({"sv":sv,"shape":shape,"rows":rows})
}

fn arbitrary_rows(rng: &mut Rng, n: usize, base: i64) -> Vec<(String, Vec<u8>, i64, i64)> {
    let mut v = Vec::new();
    for i in 0..n {
        let a = addr_text(base + i as i64 * 3 + rng.below(3) as i64);
        let cid = match rng.below(6) {
            0 => vec![],
            1 => rng.bytes(255),
            2 => vec![0u8; 1],
            3 => b"client-1".to_vec(),
            _ => {
                let n = 1 + rng.below(20) as usize;
                rng.bytes(n)
            }
        };
        let now = now_secs();
        let (s, e) = match rng.below(6) {
            0 => (0, 0),
            1 => (now, now - 100), // start > expiry
            2 => (now - 50, now + 1000),
            3 => (1, 0x7fff_fff0),
            4 => (now - 100000, now - 90000),
            _ => (rng.below(2_000_000_000) as i64, rng.below(2_000_000_000) as i64),
        };
        v.push((a, cid, s, e));
    }
    v
}

fn construct(path: &std::path::Path, sv: &str, shape: &str, rows: &[(String, Vec<u8>, i64, i64)]) {
    let _ = std::fs::remove_file(path);
    let conn = rusqlite::Connection::open(path).expect("create file");
    match shape {
        "v0" => {
            conn.execute(V0_LEASES, []).unwrap();
        }
        "v1" => {
            conn.execute(V1_LEASES, []).unwrap();
        }
        _ => {}
    }
    if shape != "absent" {
        for (a, c, s, e) in rows {
            conn.execute("INSERT OR REPLACE INTO leases (address, clientid, start, expiry) VALUES (?1, ?2, ?3, ?4)", rusqlite::params![a, c, s, e]).unwrap();
        }
    }
    if sv != "none" {
        conn.execute(SV_TABLE, []).unwrap();
        if let Some(v) = sv.strip_prefix('v') {
            let v: i64 = v.parse().unwrap();
            conn.execute("INSERT INTO schema_version (key, version) VALUES ('pool', ?1)", rusqlite::params![v]).unwrap();
        }
    }
}

fn classify(err: &str) -> &'static str {
    if err.contains("duplicate column") {
        "duplicateColumn"
    } else if err.contains("newer than") {
        "newerSchema"
    } else if err.contains("no such table") {
        "noSuchTable"
    } else {
        "other"
    }
}

fn files(args: &[String]) {
    let cases = read_ndjson(&arg(args, "--cases").expect("--cases"));
    let mut out = Trace::create(&arg(args, "--out").expect("--out"));
    let dir = arg(args, "--dbdir").expect("--dbdir");
    std::fs::create_dir_all(&dir).unwrap();
    let mut rng = Rng::new(arg_u64(args, "--seed", 1));
    quiet_panics();
    for (i, c) in cases.iter().enumerate() {
        let path = std::path::Path::new(&dir).join(format!("file-{}.sqlite", i));
        let sv = c["sv"].as_str().unwrap();
        let shape = c["shape"].as_str().unwrap();
        let n = c["nrows"].as_u64().unwrap_or(0) as usize;
        let rows = if shape == "absent" { vec![] } else { arbitrary_rows(&mut rng, n, 1) };
        construct(&path, sv, shape, &rows);
        let before = inspect(&path);
        let r = guarded(|| pool::Pool::verif_open(&path).map(|p| drop(p)));
        let (outcome, err) = match r {
            Ok(Ok(())) => ("ok", String::new()),
            Ok(Err(e)) => ("err", format!("{}", e)),
            Err(p) => ("panic", p),
        };
        // second open: a store that opened once must open again
        let again = if outcome == "ok" {
            match guarded(|| pool::Pool::verif_open(&path).map(|p| drop(p))) {
                Ok(Ok(())) => "ok",
                Ok(Err(_)) => "err",
                Err(_) => "panic",
            }
        } else {
            "skipped"
        };
        // "the server then behaves exactly as an uninterrupted server would": serve one client, list the leases
        let usable = if again == "ok" {
            match guarded(|| -> Result<usize, pool::Error> {
                let mut p = pool::Pool::verif_open(&path)?;
                let n0 = p.get_leases().map(|v| v.len()).unwrap_or(usize::MAX);
                let mut set = pool::PoolAddresses::default();
                set.insert(std::net::Ipv4Addr::new(10, 200, 0, 1));
                p.allocate_address(b"after-open", None, &set, std::time::Duration::from_secs(60), std::time::Duration::from_secs(60), b"\xff")?;
                let n1 = p.get_leases()?.len();
                p.verif_conn().execute("DELETE FROM leases WHERE address = '10.200.0.1'", []).map_err(|e| pool::Error::DbError(e.to_string()))?;
                Ok(n1.wrapping_sub(n0))
            }) {
                Ok(Ok(1)) => "ok",
                Ok(Ok(_)) => "miscount",
                Ok(Err(_)) => "err",
                Err(_) => "panic",
            }
        } else {
            "skipped"
        };
        let after = inspect(&path);
        out.emit(json!({"ev":"fileopen","case":c,"file":before,"outcome":outcome,"errclass":classify(&err),"err":err,"again":again,"usable":usable,"after":after}));
        let _ = std::fs::remove_file(&path);
    }
    let n = out.finish();
    eprintln!("store files: {} events", n);
}

fn replies(evs: &[Value]) -> (Vec<Value>, bool, Vec<i64>) {
    let mut v = Vec::new();
    let mut reopened_ok = true;
    let mut times = Vec::new();
    for e in evs {
        match e["ev"].as_str().unwrap() {
            "msg" => {
                v.push(json!([e["res"], e["y"], e["L"]]));
                times.push(e["t0"].as_i64().unwrap());
                times.push(e["t1"].as_i64().unwrap());
            }
            "metrics" => v.push(json!([e["outcome"], e["active"], e["expired"]])),
            "list" => v.push(json!([e["outcome"], e["entries"].as_array().unwrap().len(), 0])),
            "reopen" => reopened_ok &= e["outcome"] == "ok",
            _ => {}
        }
    }
    (v, reopened_ok, times)
}

fn split(args: &[String]) {
    let scen = read_ndjson(&arg(args, "--scenarios").expect("--scenarios"));
    let mut out = Trace::create(&arg(args, "--out").expect("--out"));
    let dir = arg(args, "--dbdir").expect("--dbdir");
    std::fs::create_dir_all(&dir).unwrap();
    let mut rng = Rng::new(arg_u64(args, "--seed", 1));
    quiet_panics();
    let mut ctx = crate::dhcp::new_ctx();
    for (n, sc) in scen.iter().enumerate() {
        // strip restarts from the scenario itself: run A is the uninterrupted server
        let mut sc = sc.clone();
        let steps: Vec<Value> = sc["steps"].as_array().unwrap().iter().filter(|s| s["k"] != "restart").cloned().collect();
        let nsteps = steps.len();
        sc["steps"] = Value::Array(steps);
        let k = rng.below(nsteps as u64 + 1) as usize;
        let ea = crate::dhcp::run_scenario(&sc, 2 * n, &dir, now_secs(), &mut ctx, None);
        let eb = crate::dhcp::run_scenario(&sc, 2 * n + 1, &dir, now_secs(), &mut ctx, Some(k));
        let (ra, _, ta) = replies(&ea);
        let (rb, reopened, tb) = replies(&eb);
        // clock skew between the two runs: compare the instants of each call relative to the run's start
        let skew = ta.len() != tb.len() || ta.iter().zip(tb.iter()).any(|(a, b)| a != b);
        let fin = |evs: &[Value]| evs.iter().rev().find(|e| e["ev"] == "end").map(|e| e["rel"].clone()).unwrap_or(json!([]));
        let enda = evs_end_t(&ea);
        let endb = evs_end_t(&eb);
        out.emit(json!({"ev":"cmp","sc":sc["sc"],"split":k,"steps":nsteps,"skew":skew || enda != endb,"reopened":reopened,
                        "a":ra,"b":rb,"dba":fin(&ea),"dbb":fin(&eb)}));
    }
    let n = out.finish();
    eprintln!("store split: {} events", n);
}
fn evs_end_t(evs: &[Value]) -> i64 {
    evs.iter().rev().find(|e| e["ev"] == "end").and_then(|e| e["t"].as_i64()).unwrap_or(-1)
}

/// Child: open the store (runs the migration), then allocate forever,
/// acknowledging each lease on stdout only AFTER allocate_address returned.
fn child(args: &[String]) {
    let path = arg(args, "--db").expect("--db");
    let mut p = match pool::Pool::verif_open(std::path::Path::new(&path)) {
        Ok(p) => p,
        Err(e) => {
            println!("openfail {}", e);
            std::process::exit(3)
        }
    };
    let so = std::io::stdout();
    let mut so = so.lock();
    writeln!(so, "opened").unwrap();
    so.flush().unwrap();
    let max = arg_u64(args, "--max", i64::MAX as u64) as i64;
    const L: u64 = 1000;
    let mut i: i64 = 0;
    loop {
        if i >= max {
            return;
        }
        i += 1;
        // odd steps: a new client takes a new address; even steps: 100 seconds pass for that
        // lease (stored timestamps shifted) and the client renews it
        let k = (i + 1) / 2;
        let x = 1 + (k % 200);
        let id = format!("kc-{}", k).into_bytes();
        if i % 2 == 0 {
            // announced BEFORE it happens: from here on the lease of x may be 100 s older than acknowledged
            if writeln!(so, "shift {}", x).is_err() || so.flush().is_err() {
                return;
            }
            let _ = p.verif_conn().execute(
                "UPDATE leases SET start = start - 100, expiry = expiry - 100 WHERE address = ?1",
                rusqlite::params![std::net::Ipv4Addr::from(0x0A00_0000u32 + x as u32).to_string()],
            );
        }
        let mut set = pool::PoolAddresses::default();
        set.insert(std::net::Ipv4Addr::from(0x0A00_0000u32 + x as u32));
        let r = p.allocate_address(&id, None, &set, std::time::Duration::from_secs(L), std::time::Duration::from_secs(L), b"\x0c\x02hi\xff");
        let line = match r {
            // acknowledged only now, after allocate_address returned: the client is told "yours until E"
            Ok(l) => format!("ack {} {} {}", x, k, now_secs() as u64 + l.expire.as_secs()),
            Err(_) => format!("nak {} {}", x, k),
        };
        if writeln!(so, "{}", line).is_err() || so.flush().is_err() {
            return;
        }
    }
}

fn kill(args: &[String]) {
    let mut out = Trace::create(&arg(args, "--out").expect("--out"));
    let dir = arg(args, "--dbdir").expect("--dbdir");
    std::fs::create_dir_all(&dir).unwrap();
    let n = arg_u64(args, "--n", 20);
    let mut rng = Rng::new(arg_u64(args, "--seed", 1));
    quiet_panics();
    let exe = std::env::current_exe().unwrap();
    for i in 0..n {
        let path = std::path::Path::new(&dir).join(format!("kill-{}.sqlite", i));
        let kind = ["fresh", "v0", "v1", "fresh", "v0"][(i % 5) as usize];
        let _ = std::fs::remove_file(&path);
        let oldrows = arbitrary_rows(&mut rng, 3, 100) /* outside the addresses the child allocates */;
        match kind {
            "v0" => construct(&path, "none", "v0", &oldrows),
            "v1" => construct(&path, "v1", "v1", &oldrows),
            _ => {}
        }
        let before = if kind == "fresh" { json!({"sv":"none","shape":"absent","rows":[]}) } else { inspect(&path) };
        // several kill/restart rounds on the same file
        let rounds = 1 + rng.below(3);
        let mut acked: std::collections::HashMap<i64, (i64, i64)> = std::collections::HashMap::new();
        let mut kills = Vec::new();
        for _ in 0..rounds {
            let mut ch = std::process::Command::new(&exe)
                .args(["store", "child", "--db", path.to_str().unwrap()])
                .stdout(std::process::Stdio::piped())
                .stderr(std::process::Stdio::null())
                .spawn()
                .expect("spawn child");
            // kill instants: half of them very early (during open/migration), half during allocation
            let us = if rng.chance(1, 2) { rng.below(6000) } else { 3000 + rng.below(60000) };
            std::thread::sleep(std::time::Duration::from_micros(us));
            unsafe {
                libc::kill(ch.id() as i32, libc::SIGKILL);
            }
            let so = ch.stdout.take().unwrap();
            let mut opened = false;
            for line in std::io::BufReader::new(so).lines().map_while(Result::ok) {
                let f: Vec<&str> = line.split(' ').collect();
                if f[0] == "opened" {
                    opened = true;
                }
                if f[0] == "ack" && f.len() >= 4 {
                    acked.insert(f[1].parse().unwrap(), (f[2].parse().unwrap(), f[3].parse().unwrap()));
                }
                if f[0] == "shift" && f.len() >= 2 {
                    if let Some(a) = acked.get_mut(&f[1].parse().unwrap()) {
                        a.1 -= 100;
                    }
                }
            }
            let _ = ch.wait();
            kills.push(json!([us, opened]));
        }
        out.emit(post_mortem(&path, kind, kills, before, &acked));
        let _ = std::fs::remove_file(&path);
    }
    let n = out.finish();
    eprintln!("store kill: {} events", n);
}

/// Reopen a file after the process working on it was killed; record what is there.
fn post_mortem(path: &std::path::Path, kind: &str, kills: Vec<Value>, before: Value, acked: &std::collections::HashMap<i64, (i64, i64)>) -> Value {
    let r = guarded(|| pool::Pool::verif_open(path).map(|p| drop(p)));
    let (outcome, err) = match r {
        Ok(Ok(())) => ("ok", String::new()),
        Ok(Err(e)) => ("err", format!("{}", e)),
        Err(p) => ("panic", p),
    };
    let after = inspect(path);
    // rows as (address index, client index) read by the harness itself
    let conn = rusqlite::Connection::open(path).unwrap();
    let rows: Vec<(String, Option<Vec<u8>>, Option<i64>, Option<i64>)> = conn
        .prepare("SELECT address, clientid, start, expiry FROM leases")
        .and_then(|mut s| s.query_map([], |r| Ok((r.get(0)?, r.get(1)?, r.get(2)?, r.get(3)?)))?.collect::<Result<Vec<_>, _>>())
        .unwrap_or_default();
    let mut present = Vec::new();
    let mut partial = false;
    for (a, c, s, e) in &rows {
        if let Some(c) = c
            && let Some(cs) = std::str::from_utf8(c).ok().and_then(|t| t.strip_prefix("kc-"))
        {
            let x = a.parse::<std::net::Ipv4Addr>().map(|ip| u32::from(ip) as i64 - 0x0A00_0000).unwrap_or(-1);
            present.push(json!([x, cs.parse::<i64>().unwrap_or(-1), s.unwrap_or(-1), e.unwrap_or(-1)]));
            if s.is_none() || e.is_none() {
                partial = true;
            }
        }
    }
    let mut ack: Vec<Value> = acked.iter().map(|(x, (c, e))| json!([x, c, e])).collect();
    ack.sort_by_key(|v| v[0].as_i64());
    json!({"ev":"kill","kind":kind,"kills":kills,"before":before,"outcome":outcome,"errclass":classify(&err),"err":err,
           "after":after,"acked":ack,"present":present,"partial":partial})
}

const SYSCALLS: [&str; 4] = ["pwrite64", "fdatasync", "unlink", "ftruncate"];

fn strace_child(path: &std::path::Path, max: u64, inject: Option<(&str, u64)>, log: &std::path::Path) -> (bool, Vec<(i64, (i64, i64))>) {
    let exe = std::env::current_exe().unwrap();
    let journal = format!("{}-journal", path.to_str().unwrap());
    let mut cmd = std::process::Command::new("strace");
    cmd.args(["-f", "-o", log.to_str().unwrap(), "-e", &format!("trace={}", SYSCALLS.join(","))]);
    if let Some((sc, k)) = inject {
        cmd.args(["-e", &format!("inject={}:signal=KILL:when={}", sc, k)]);
    }
    cmd.args(["-P", path.to_str().unwrap(), "-P", &journal]);
    cmd.arg(&exe).args(["store", "child", "--db", path.to_str().unwrap(), "--max", &max.to_string()]);
    cmd.stdout(std::process::Stdio::piped()).stderr(std::process::Stdio::null());
    let mut ch = cmd.spawn().unwrap_or_else(|e| {
        eprintln!("cannot run strace: {}", e);
        std::process::exit(4)
    });
    let so = ch.stdout.take().unwrap();
    let mut opened = false;
    let mut acks = Vec::new();
    for line in std::io::BufReader::new(so).lines().map_while(Result::ok) {
        let f: Vec<&str> = line.split(' ').collect();
        if f[0] == "opened" {
            opened = true;
        }
        if f[0] == "ack" && f.len() >= 4 {
            acks.push((f[1].parse().unwrap(), (f[2].parse().unwrap(), f[3].parse().unwrap())));
        }
        if f[0] == "shift" && f.len() >= 2 {
            let x: i64 = f[1].parse().unwrap();
            if let Some(a) = acks.iter_mut().rev().find(|a| a.0 == x) {
                a.1.1 -= 100;
            }
        }
    }
    let _ = ch.wait();
    (opened, acks)
}

/// Deterministic crash-point enumeration: the child (open + `max` allocations)
/// is run under strace and SIGKILLed on entry to the k-th pwrite64 /
/// fdatasync / unlink / ftruncate touching the database or its journal, for
/// every k that occurs in an uninterrupted run.
fn crashpoints(args: &[String]) {
    let mut out = Trace::create(&arg(args, "--out").expect("--out"));
    let dir = arg(args, "--dbdir").expect("--dbdir");
    std::fs::create_dir_all(&dir).unwrap();
    let dir = std::fs::canonicalize(&dir).unwrap().to_str().unwrap().to_string(); // strace -P needs absolute paths
    let max = arg_u64(args, "--max", 2);
    let stride = arg_u64(args, "--stride", 1);
    let mut rng = Rng::new(arg_u64(args, "--seed", 1));
    quiet_panics();
    let log = std::path::Path::new(&dir).join("strace.log");
    let kinds = arg_or(args, "--kinds", "fresh,v0,v1");
    for kind in kinds.split(',') {
        let path = std::path::Path::new(&dir).join(format!("cp-{}.sqlite", kind));
        let oldrows = arbitrary_rows(&mut rng, 3, 100);
        let prepare = |path: &std::path::Path| {
            let _ = std::fs::remove_file(path);
            let _ = std::fs::remove_file(format!("{}-journal", path.to_str().unwrap()));
            match kind {
                "v0" => construct(path, "none", "v0", &oldrows),
                "v1" => construct(path, "v1", "v1", &oldrows),
                _ => {}
            }
        };
        prepare(&path);
        let before = if kind == "fresh" { json!({"sv":"none","shape":"absent","rows":[]}) } else { inspect(&path) };
        let (opened, acks) = strace_child(&path, max, None, &log);
        if !opened || (acks.len() as u64) < max {
            eprintln!("crashpoints: dry run under strace failed (opened={}, acks={})", opened, acks.len());
            std::process::exit(4);
        }
        let text = std::fs::read_to_string(&log).unwrap_or_default();
        for sc in SYSCALLS {
            let count = text.lines().filter(|l| l.contains(&format!(" {}(", sc))).count() as u64;
            let mut k = 1;
            while k <= count {
                prepare(&path);
                let (opened, acks) = strace_child(&path, max, Some((sc, k)), &log);
                let acked: std::collections::HashMap<i64, (i64, i64)> = acks.into_iter().collect();
                let mut e = post_mortem(&path, kind, vec![json!([k, opened])], before.clone(), &acked);
                e["crashpoint"] = json!({"syscall": sc, "k": k, "of": count});
                out.emit(e);
                k += stride;
            }
        }
        let _ = std::fs::remove_file(&path);
    }
    let _ = std::fs::remove_file(&log);
    let n = out.finish();
    eprintln!("store crashpoints: {} events", n);
}

pub fn main(args: &[String]) {
    match args.first().map(|s| s.as_str()) {
        Some("files") => files(&args[1..]),
        Some("split") => split(&args[1..]),
        Some("kill") => kill(&args[1..]),
        Some("child") => child(&args[1..]),
        Some("crashpoints") => crashpoints(&args[1..]),
        _ => {
            eprintln!("usage: store files|split|kill ...");
            std::process::exit(2)
        }
    }
}
