//! C08 driver (function level): rule lists rendered to YAML, loaded by the
//! real loader, decided by the real `acl::require_permission`.
use crate::util::*;
use erbium::acl;
use serde_json::{Value, json};

pub fn addr_text(fam: &str, a: &[u8]) -> String {
    if fam == "v4" {
        std::net::Ipv4Addr::new(a[0], a[1], a[2], a[3]).to_string()
    } else {
        let o: [u8; 16] = a.try_into().unwrap();
        std::net::Ipv6Addr::from(o).to_string()
    }
}
fn octets(v: &Value) -> Vec<u8> {
    v.as_array().unwrap().iter().map(|x| x.as_u64().unwrap() as u8).collect()
}

pub fn render_acls(rules: &[Value]) -> String {
    if rules.is_empty() {
        return "acls: []\n".into();
    }
    let mut s = String::from("acls:\n");
    for r in rules {
        let mut f = vec![];
        if !r["any"].as_bool().unwrap() {
            let subs: Vec<String> = r["subnets"].as_array().unwrap().iter()
                .map(|p| format!("\"{}/{}\"", addr_text(p[0].as_str().unwrap(), &octets(&p[1])), p[2])).collect();
            f.push(format!("match-subnets: [{}]", subs.join(", ")));
        }
        match r["unix"].as_i64().unwrap() {
            1 => f.push("match-unix: true".into()),
            0 => f.push("match-unix: false".into()),
            _ => {}
        }
        let perms: Vec<String> = r["perms"].as_array().unwrap().iter().map(|p| p.as_str().unwrap().to_string()).collect();
        f.push(format!("apply-access: [{}]", perms.join(", ")));
        s.push_str(&format!("  - {{{}}}\n", f.join(", ")));
    }
    s
}

pub fn client_addr(c: &Value) -> erbium_net::addr::NetAddr {
    use erbium_net::addr::ToNetAddr as _;
    match c["fam"].as_str().unwrap() {
        "unix" => erbium_net::addr::UnixAddr::new("/run/verif-client").unwrap().to_net_addr(),
        fam => {
            let ip: std::net::IpAddr = addr_text(fam, &octets(&c["a"])).parse().unwrap();
            std::net::SocketAddr::new(ip, 40000).into()
        }
    }
}

pub fn main(args: &[String]) {
    let cases = read_ndjson(&arg(args, "--cases").expect("--cases"));
    let mut out = Trace::create(&arg(args, "--out").expect("--out"));
    quiet_panics();
    let rt = tokio::runtime::Builder::new_current_thread().enable_all().build().unwrap();
    for case in &cases {
        let rules = case["rules"].as_array().unwrap();
        let yaml = render_acls(rules);
        let conf = match guarded(|| erbium::config::verif_load_config_from_string(&yaml)) {
            Ok(Ok(c)) => c,
            Ok(Err(e)) => {
                out.emit(json!({"ev":"cfg_rejected","err":format!("{}", e),"yaml":yaml}));
                continue;
            }
            Err(p) => {
                out.emit(json!({"ev":"cfg_rejected","err":format!("panic: {}", p),"yaml":yaml}));
                continue;
            }
        };
        let locked = rt.block_on(conf.read());
        for c in case["clients"].as_array().unwrap() {
            let attrs = acl::Attributes { addr: client_addr(c) };
            for op in ["dns-recursion", "http", "http-metrics", "http-leases"] {
                let pt = match op {
                    "dns-recursion" => acl::PermissionType::DnsRecursion,
                    "http" => acl::PermissionType::Http,
                    "http-metrics" => acl::PermissionType::HttpMetrics,
                    _ => acl::PermissionType::HttpLeases,
                };
                let r = guarded(|| acl::require_permission(&locked.acls, &attrs, pt));
                let (outcome, granted) = match r {
                    Ok(Ok(())) => ("ok", true),
                    Ok(Err(_)) => ("ok", false),
                    Err(_) => ("panic", false),
                };
                out.emit(json!({"ev":"acl","binding":"fn","rules":rules,"client":c,"op":op,"outcome":outcome,"granted":granted,"forwarded":false,"answered":false}));
            }
        }
    }
    let n = out.finish();
    eprintln!("acl: {} events", n);
}
