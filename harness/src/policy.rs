//! C02 / C11 driver: configurations (top-level defaults + policy trees) are
//! rendered to YAML, loaded by the real loader, and served by the real
//! `dhcp::handle_pkt`.  Recorded: the set of addresses a client can drain from
//! its pool (or a probe of the default pool for big prefixes), and the option
//! map of a reply projected onto the symbolic values of the specification.
use crate::util::*;
use erbium::dhcp::{self, dhcppkt, pool};
use serde_json::{Value, json};
use std::net::Ipv4Addr;

const BASE: u32 = 0x0A00_0000;
fn ip(x: i64) -> Ipv4Addr {
    Ipv4Addr::from(BASE.wrapping_add(x as u32))
}
fn int(a: Ipv4Addr) -> i64 {
    u32::from(a).wrapping_sub(BASE) as i64
}
fn mac(m: i64) -> Vec<u8> {
    vec![0x02, 0xaa, 0, 0, 0, m as u8]
}
fn hostname(h: i64) -> String {
    format!("host{}", h)
}

/// name and YAML rendering of the value alphabet per option code
fn opt_name(code: i64) -> &'static str {
    match code {
        1 => "netmask",
        2 => "time-offset",
        3 => "routers",
        6 => "dns-servers",
        15 => "domain-name",
        26 => "mtu",
        28 => "broadcast",
        42 => "ntp-servers",
        114 => "captive-portal",
        119 => "dns-searches",
        252 => "wpad-url",
        _ => "unknown",
    }
}
fn opt_yaml(code: i64, k: i64) -> String {
    match (code, k) {
        (1, 1) => "255.0.255.0".into(),
        (1, _) => "255.255.0.255".into(),
        (2, 1) => "3600".into(),
        (2, _) => "-3600".into(),
        (3, 1) => "[10.99.3.1]".into(),
        (3, _) => "[10.99.3.2, 10.99.3.3]".into(),
        (6, 1) => "[10.99.0.53]".into(),
        (6, _) => "[10.99.0.54, 10.99.0.55]".into(),
        (15, 1) => "one.example".into(),
        (15, _) => "two.example".into(),
        (26, 1) => "1400".into(),
        (26, _) => "9000".into(),
        (28, 1) => "10.77.0.255".into(),
        (28, _) => "10.77.1.255".into(),
        (42, 1) => "[10.99.0.123]".into(),
        (42, _) => "[10.99.1.1, 10.99.1.2]".into(),
        (114, 1) => "https://portal.example/one".into(),
        (114, _) => "https://portal.example/two".into(),
        (119, 1) => "[a.example]".into(),
        (119, _) => "[b.example, c.example]".into(),
        (252, 1) => "http://wpad.example/one.dat".into(),
        (252, _) => "http://wpad.example/two.dat".into(),
        _ => "0".into(),
    }
}
fn ips(v: &[[u8; 4]]) -> Vec<u8> {
    v.iter().flat_map(|a| a.iter().copied()).collect()
}
fn labels(d: &[&str]) -> Vec<u8> {
    let mut o = vec![];
    for n in d {
        for l in n.split('.') {
            o.push(l.len() as u8);
            o.extend(l.as_bytes());
        }
        o.push(0);
    }
    o
}
/// wire encoding of a symbolic value, written from the RFCs (independent of the crate's encoders)
fn opt_wire(code: i64, k: i64) -> Vec<u8> {
    match (code, k) {
        (1, 1) => vec![255, 0, 255, 0],
        (1, _) => vec![255, 255, 0, 255],
        (2, 1) => 3600i32.to_be_bytes().to_vec(),
        (2, _) => (-3600i32).to_be_bytes().to_vec(),
        (3, 1) => ips(&[[10, 99, 3, 1]]),
        (3, _) => ips(&[[10, 99, 3, 2], [10, 99, 3, 3]]),
        (6, 1) => ips(&[[10, 99, 0, 53]]),
        (6, _) => ips(&[[10, 99, 0, 54], [10, 99, 0, 55]]),
        (15, 1) => b"one.example".to_vec(),
        (15, _) => b"two.example".to_vec(),
        (26, 1) => 1400u16.to_be_bytes().to_vec(),
        (26, _) => 9000u16.to_be_bytes().to_vec(),
        (28, 1) => vec![10, 77, 0, 255],
        (28, _) => vec![10, 77, 1, 255],
        (42, 1) => ips(&[[10, 99, 0, 123]]),
        (42, _) => ips(&[[10, 99, 1, 1], [10, 99, 1, 2]]),
        (114, 1) => b"https://portal.example/one".to_vec(),
        (114, _) => b"https://portal.example/two".to_vec(),
        (119, 1) => labels(&["a.example"]),
        (119, _) => labels(&["b.example", "c.example"]),
        (252, 1) => b"http://wpad.example/one.dat".to_vec(),
        (252, _) => b"http://wpad.example/two.dat".to_vec(),
        _ => vec![],
    }
}

fn yaml_val(code: i64, v: &Value) -> String {
    if v[0] == "null" { "null".into() } else { opt_yaml(code, v[1].as_i64().unwrap()) }
}

/// one policy in YAML flow style
fn render_node(n: &Value) -> String {
    let mut f: Vec<String> = Vec::new();
    if let Some(s) = n["sub"].as_array()
        && !s.is_empty()
    {
        f.push(format!("match-subnet: \"{}/{}\"", ip(s[0].as_i64().unwrap()), s[1]));
    }
    let m = n["mac"].as_i64().unwrap_or(0);
    if m != 0 {
        f.push(format!("match-hardware-address: \"{}\"", mac(m).iter().map(|b| format!("{:02x}", b)).collect::<Vec<_>>().join(":")));
    }
    let h = n["host"].as_i64().unwrap_or(0);
    if h == -1 {
        f.push("match-host-name: null".into());
    } else if h > 0 {
        f.push(format!("match-host-name: {}", hostname(h)));
    }
    for it in n["a"].as_array().unwrap() {
        match it[0].as_str().unwrap() {
            "range" => f.push(format!("apply-range: {{start: {}, end: {}}}", ip(it[1].as_i64().unwrap()), ip(it[2].as_i64().unwrap()))),
            "subnet" => f.push(format!("apply-subnet: \"{}/{}\"", ip(it[1].as_i64().unwrap()), it[2])),
            _ => f.push(format!("apply-address: {}", ip(it[1].as_i64().unwrap()))),
        }
    }
    for o in n["o"].as_array().unwrap() {
        let code = o[0].as_i64().unwrap();
        let v = yaml_val(code, &o[1]);
        let v = if v.starts_with("http") { format!("\"{}\"", v) } else { v };
        f.push(format!("apply-{}: {}", opt_name(code), v));
    }
    let kids = n["k"].as_array().unwrap();
    if !kids.is_empty() {
        f.push(format!("policies: [{}]", kids.iter().map(render_node).collect::<Vec<_>>().join(", ")));
    }
    format!("{{{}}}", f.join(", "))
}

pub fn render(cfg: &Value) -> String {
    let mut s = String::new();
    let addrs = cfg["addresses_yaml"].as_array().unwrap();
    if !addrs.is_empty() {
        s.push_str(&format!("addresses: [{}]\n", addrs.iter().map(|a| a.as_str().unwrap().to_string()).collect::<Vec<_>>().join(", ")));
    }
    let top = &cfg["top"];
    if top["dns"][0] == "v" {
        s.push_str(&format!("dns-servers: {}\n", opt_yaml(6, top["dns"][1].as_i64().unwrap())));
    } else if top["dns"][0] == "selfplus" {
        s.push_str("dns-servers: [$self4, $self6, 10.99.0.53, \"2001:db8::53\"]\n");
    }
    if top["search"][0] == "v" {
        s.push_str(&format!("dns-search: {}\n", opt_yaml(119, top["search"][1].as_i64().unwrap())));
    }
    if top["portal"][0] == "v" {
        s.push_str(&format!("captive-portal: \"{}\"\n", opt_yaml(114, top["portal"][1].as_i64().unwrap())));
    }
    let pol = cfg["pol"].as_array().unwrap();
    if !pol.is_empty() {
        s.push_str("dhcp-policies:\n");
        for p in pol {
            s.push_str(&format!("  - {}\n", render_node(p)));
        }
    }
    if s.is_empty() {
        s.push_str("dns-search: []\n");
    }
    s
}

fn request(r: &Value, kind: u8, cid: &[u8], want: Option<Ipv4Addr>) -> dhcp::DHCPRequest {
    let mut options = dhcppkt::DhcpOptions::default();
    options.other.insert(dhcppkt::OPTION_MSGTYPE, vec![kind]);
    options.other.insert(dhcppkt::OPTION_CLIENTID, cid.to_vec());
    let h = r["host"].as_i64().unwrap_or(0);
    if h > 0 {
        options.other.insert(dhcppkt::OPTION_HOSTNAME, hostname(h).into_bytes());
    }
    if let Some(pl) = r["pl"].as_array() {
        options.other.insert(dhcppkt::OPTION_PARAMLIST, pl.iter().map(|x| x.as_u64().unwrap() as u8).collect());
    }
    if let Some(w) = want {
        options.other.insert(dhcppkt::OPTION_ADDRESSREQUEST, w.octets().to_vec());
    }
    dhcp::DHCPRequest {
        pkt: dhcppkt::parse(&{
            // a plain BOOTREQUEST header through the decoder (op/htype are opaque types)
            let mut b = vec![1u8, 1, 6, 0, 0, 0, 0, 7, 0, 0, 0, 0];
            b.extend([0u8; 16]);
            let mut ch = mac(r["mac"].as_i64().unwrap_or(1));
            ch.resize(16, 0);
            b.extend(ch);
            b.extend(vec![0u8; 192]);
            b.extend([0x63, 0x82, 0x53, 0x63, 255]);
            b
        })
        .map(|mut p| {
            p.options = options;
            p
        })
        .expect("seed request"),
        serverip: ip(r["ip"].as_i64().unwrap()),
        ifindex: 1,
        if_mtu: r["mtu"].as_u64().filter(|m| *m != 0).map(|m| m as u32),
        if_router: r["rtr"].as_i64().filter(|x| *x != 0).map(ip),
    }
}

/// reply option bytes -> symbolic value of the specification
fn symbolic(code: i64, bytes: &[u8], r: &Value, cands: &[Value]) -> Value {
    for k in 1..=2 {
        if opt_name(code) != "unknown" && opt_wire(code, k) == bytes {
            return json!(["v", k]);
        }
    }
    if bytes.is_empty() {
        return json!(["empty"]);
    }
    let sip = ip(r["ip"].as_i64().unwrap()).octets().to_vec();
    if code == 6 && bytes == sip {
        return json!(["self"]);
    }
    if code == 6 && bytes == [sip.clone(), vec![10, 99, 0, 53]].concat() {
        return json!(["selfplus"]);
    }
    if code == 26 && bytes.len() == 2 {
        return json!(["mtu", u16::from_be_bytes([bytes[0], bytes[1]])]);
    }
    if code == 3 && bytes.len() == 4 {
        return json!(["rtr", int(Ipv4Addr::new(bytes[0], bytes[1], bytes[2], bytes[3]))]);
    }
    // computed subnet defaults: any candidate prefix of the configuration
    for c in cands {
        let a = c[0].as_i64().unwrap();
        let plen = c[1].as_i64().unwrap() as u32;
        let mask: u32 = if plen == 0 { 0 } else { u32::MAX << (32 - plen) };
        let net = (BASE.wrapping_add(a as u32)) & mask;
        if code == 1 && bytes == mask.to_be_bytes() {
            return json!(["mask", plen]);
        }
        if code == 28 && bytes == (net | !mask).to_be_bytes() {
            return json!(["bcast", (net | !mask).wrapping_sub(BASE)]);
        }
    }
    json!(["raw", crate::util::hex(bytes)])
}

fn subnets_of(cfg: &Value) -> Vec<Value> {
    fn walk(n: &Value, out: &mut Vec<Value>) {
        if let Some(s) = n["sub"].as_array()
            && !s.is_empty()
        {
            out.push(json!([s[0], s[1]]));
        }
        for k in n["k"].as_array().unwrap() {
            walk(k, out);
        }
    }
    let mut v: Vec<Value> = cfg["addresses"].as_array().unwrap().clone();
    for p in cfg["pol"].as_array().unwrap() {
        walk(p, &mut v);
    }
    v
}

pub fn main(args: &[String]) {
    let cases = read_ndjson(&arg(args, "--cases").expect("--cases"));
    let mut out = Trace::create(&arg(args, "--out").expect("--out"));
    quiet_panics();
    let rt = tokio::runtime::Builder::new_current_thread().enable_all().build().unwrap();
    let ids: std::collections::HashSet<Ipv4Addr> = Default::default();
    for (ci, case) in cases.iter().enumerate() {
        let cfg = &case["cfg"];
        let yaml = render(cfg);
        let conf = match guarded(|| erbium::config::verif_load_config_from_string(&yaml)) {
            Ok(Ok(c)) => c,
            Ok(Err(e)) => {
                out.emit(json!({"ev":"cfg_rejected","case":ci,"err":format!("{}", e),"yaml":yaml}));
                continue;
            }
            Err(p) => {
                out.emit(json!({"ev":"cfg_rejected","case":ci,"err":format!("panic: {}", p),"yaml":yaml}));
                continue;
            }
        };
        let lockedconf = rt.block_on(conf.read());
        let cands = subnets_of(cfg);
        for (ri, r) in case["reqs"].as_array().unwrap().iter().enumerate() {
            let mode = r["mode"].as_str().unwrap_or("drain");
            if mode == "drain" {
                // fresh clients (same hardware address and host name, so the same policies match) until refusal
                let mut pl = pool::Pool::new_in_memory().expect("pool");
                let mut got: Vec<i64> = Vec::new();
                let mut stop = "limit";
                let limit = r["limit"].as_u64().unwrap_or(1200);
                let mut first_yaml_reply: Option<Value> = None;
                for n in 0..limit {
                    let cid = format!("drain-{}-{}-{}", ci, ri, n).into_bytes();
                    let req = request(r, if n % 2 == 0 { 1 } else { 3 }, &cid, None);
                    match guarded(|| dhcp::handle_pkt(&mut pl, &req, ids.clone(), &lockedconf)) {
                        Ok(Ok(rep)) => {
                            got.push(int(rep.yiaddr));
                            if first_yaml_reply.is_none() {
                                first_yaml_reply = Some(json!(int(rep.yiaddr)));
                            }
                        }
                        Ok(Err(dhcp::DhcpError::PoolError(pool::Error::NoAssignableAddress))) => {
                            stop = "noaddr";
                            break;
                        }
                        Ok(Err(dhcp::DhcpError::NoLeasesConfigured)) | Ok(Err(dhcp::DhcpError::NoPolicyConfigured)) => {
                            stop = "nopool";
                            break;
                        }
                        Ok(Err(_)) => {
                            stop = "err";
                            break;
                        }
                        Err(_) => {
                            stop = "panic";
                            break;
                        }
                    }
                }
                got.sort();
                out.emit(json!({"ev":"alloc_set","case":ci,"cfg":cfg,"req":r,"stop":stop,"got":got}));
            } else if mode == "probe" {
                // big default pools: inspect the address set the default policy would serve
                let req = request(r, 1, b"probe", None);
                let res = guarded(|| {
                    let base = dhcp::build_default_config(&lockedconf, &req);
                    let mut v = Vec::new();
                    for p in &base.policies {
                        if let Some(a) = &p.apply_address {
                            let mn = a.iter().map(|x| int(*x)).min().unwrap_or(-1);
                            let mx = a.iter().map(|x| int(*x)).max().unwrap_or(-1);
                            let members: Vec<Value> = r["probe"].as_array().unwrap().iter()
                                .map(|x| json!([x, a.contains(&ip(x.as_i64().unwrap()))])).collect();
                            v.push(json!({"size": a.len(), "min": mn, "max": mx, "members": members}));
                        }
                    }
                    v
                });
                match res {
                    Ok(v) => out.emit(json!({"ev":"alloc_probe","case":ci,"cfg":cfg,"req":r,"outcome":"ok","sets":v})),
                    Err(p) => out.emit(json!({"ev":"alloc_probe","case":ci,"cfg":cfg,"req":r,"outcome":"panic","err":p,"sets":[]})),
                }
            } else {
                // options of one reply
                let mut pl = pool::Pool::new_in_memory().expect("pool");
                let kind = if r["kind"] == "request" { 3 } else { 1 };
                let req = request(r, kind, format!("serve-{}-{}", ci, ri).as_bytes(), None);
                let (outcome, opts, err) = match guarded(|| dhcp::handle_pkt(&mut pl, &req, ids.clone(), &lockedconf)) {
                    Ok(Ok(rep)) => {
                        let mut o: Vec<(i64, Value)> = rep.options.other.iter().map(|(k, v)| {
                            let mut b = Vec::new();
                            use dhcppkt::Serialise;
                            k.serialise(&mut b);
                            (b[0] as i64, symbolic(b[0] as i64, v, r, &cands))
                        }).collect();
                        o.sort_by_key(|x| x.0);
                        ("ok", o.into_iter().map(|(c, v)| json!([c, v])).collect::<Vec<_>>(), String::new())
                    }
                    Ok(Err(dhcp::DhcpError::NoLeasesConfigured)) | Ok(Err(dhcp::DhcpError::NoPolicyConfigured)) => ("nopool", vec![], String::new()),
                    Ok(Err(e)) => ("err", vec![], format!("{}", e)),
                    Err(p) => ("panic", vec![], p),
                };
                out.emit(json!({"ev":"opts","case":ci,"cfg":cfg,"req":r,"outcome":outcome,"opts":opts,"err":err}));
            }
        }
    }
    let n = out.finish();
    eprintln!("policy: {} cases, {} events", cases.len(), n);
}
