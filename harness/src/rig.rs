//! End-to-end rig: the real `DnsService` (and, for HTTP, the real
//! `DhcpService` + `http::run`) running in-process inside a private network +
//! mount namespace, real UDP/TCP clients on distinct loopback addresses, and
//! scripted upstream resolvers on 127.0.10.k:53 (the upstream port is fixed in
//! erbium, which is why the private namespace is needed).
//!
//! Every client send/receive and every upstream receive/send is one event,
//! numbered by a single process-wide sequence counter (no wall-clock merging).
use crate::dnswalk::{self, build_query, name_digest, rec_json};
use crate::dnswire::{self, AMsg};
use crate::util::*;
use serde_json::{Value, json};
use std::collections::HashMap;
use std::net::{IpAddr, SocketAddr};
use std::sync::atomic::{AtomicU64, Ordering};
use std::sync::{Arc, Mutex};
use tokio::io::{AsyncReadExt, AsyncWriteExt};

pub struct Shared {
    seq: AtomicU64,
    start: std::time::Instant,
    events: Mutex<Vec<(u64, Value)>>,
    scripts: Mutex<HashMap<String, Value>>,
    seen: Mutex<HashMap<String, u32>>,
    held: Mutex<Vec<(tokio::sync::oneshot::Sender<()>, String)>>,
}
impl Shared {
    pub fn new() -> Arc<Shared> {
        Arc::new(Shared { seq: AtomicU64::new(1), start: std::time::Instant::now(), events: Mutex::new(vec![]), scripts: Mutex::new(HashMap::new()),
                          seen: Mutex::new(HashMap::new()), held: Mutex::new(vec![]) })
    }
    pub fn emit(&self, mut v: Value) {
        let s = self.seq.fetch_add(1, Ordering::SeqCst);
        v["seq"] = json!(s);
        v["t"] = json!(self.start.elapsed().as_millis() as u64);
        self.events.lock().unwrap().push((s, v));
    }
    pub fn drain(&self) -> Vec<Value> {
        let mut e = std::mem::take(&mut *self.events.lock().unwrap());
        e.sort_by_key(|x| x.0);
        e.into_iter().map(|x| x.1).collect()
    }
}

// ---------------------------------------------------------------- namespace --
pub fn enter_namespace(args: &[String]) {
    if std::env::var("VERIF_IN_NS").is_ok() {
        return;
    }
    let exe = std::env::current_exe().unwrap();
    let st = std::process::Command::new("unshare").args(["-n", "-m", "--"]).arg(&exe).args(args).env("VERIF_IN_NS", "1").status();
    match st {
        Ok(s) => std::process::exit(s.code().unwrap_or(3)),
        Err(e) => {
            eprintln!("rig: cannot create a private namespace: {}", e);
            std::process::exit(3)
        }
    }
}

pub fn setup_namespace() {
    let sh = |c: &str| {
        let ok = std::process::Command::new("sh").args(["-c", c]).status().map(|s| s.success()).unwrap_or(false);
        if !ok {
            eprintln!("rig: namespace setup failed: {}", c);
            std::process::exit(3);
        }
    };
    sh("ip link set lo up");
    for i in 1..=8 {
        sh(&format!("ip -6 addr add fd00::10:{}/128 dev lo nodad", i));
        sh(&format!("ip -6 addr add fd00::20:{}/128 dev lo nodad", i));
    }
    for a in ["192.0.2.7", "192.0.2.200", "192.0.3.1", "10.0.0.1"] {
        sh(&format!("ip addr add {}/32 dev lo", a));
    }
    for a in ["2001:db8::7", "2001:db8::100"] {
        sh(&format!("ip -6 addr add {}/128 dev lo nodad", a));
    }
    sh("mkdir -p /var/lib/erbium && mount -t tmpfs tmpfs /var/lib/erbium");
}

// ----------------------------------------------------------------- upstream --
pub fn up4(k: u64) -> IpAddr {
    format!("127.0.10.{}", k).parse().unwrap()
}
pub fn up6(k: u64) -> IpAddr {
    format!("fd00::10:{}", k).parse().unwrap()
}

/// The answer the upstream gives to a question unless the script says otherwise:
/// derived from the question so that "its own answer" is checkable.
pub fn answer_for(qname: &dnswire::Name, qtype: u16, script: &Value, id: u16) -> AMsg {
    let mut m = AMsg { id, qr: true, opcode: 0, aa: false, tc: false, rd: true, ra: true, ad: false, cd: false, rcode: 0,
                       qname: qname.clone(), qtype, qclass: 1, secs: Default::default(), edns: None };
    if let Some(seed) = script["reply_seed"].as_u64() {
        // a generated reply: sections from the structured generator, question from the query
        let mut rng = Rng::new(seed);
        let nrec = script["reply_nrec"].as_u64().unwrap_or(3) as usize;
        let g = dnswire::gen_msg(&mut rng, nrec, true);
        m.secs = g.secs;
        m.rcode = script["rcode"].as_u64().map(|x| x as u16).unwrap_or(g.rcode & 15);
        m.aa = g.aa;
        if let Some(ttl) = script["ttl"].as_u64() {
            for s in m.secs.iter_mut() {
                for r in s.iter_mut() {
                    r.ttl = ttl as u32;
                }
            }
        }
        if let Some(t3) = script["ttls"].as_array() {
            for (i, s) in m.secs.iter_mut().enumerate() {
                for r in s.iter_mut() {
                    r.ttl = t3[i].as_u64().unwrap_or(60) as u32;
                }
            }
        }
        if m.secs.iter().all(|s| s.is_empty()) {
            m.secs[0].push(dnswire::ARec { name: qname.clone(), rtype: 1, class: 1, ttl: script["ttl"].as_u64().unwrap_or(60) as u32, data: dnswire::AData::Other(vec![10, 0, 0, 1]) });
        }
    } else {
        let d = name_digest(&dnswalk::lower(qname));
        m.rcode = script["rcode"].as_u64().unwrap_or(0) as u16;
        let ttl = script["ttl"].as_u64().unwrap_or(60) as u32;
        let size = script["size"].as_u64().unwrap_or(0) as usize;
        if m.rcode == 0 {
            m.secs[0].push(dnswire::ARec { name: qname.clone(), rtype: 1, class: 1, ttl, data: dnswire::AData::Other(vec![10, (d >> 16) as u8, (d >> 8) as u8, d as u8]) });
            // padding records to reach a wanted size
            let mut left = size;
            let mut i = 0;
            while left > 0 {
                let n = left.min(200);
                m.secs[if i % 3 == 2 { 2 } else { i % 3 }].push(dnswire::ARec { name: qname.clone(), rtype: 16, class: 1, ttl, data: dnswire::AData::Other(vec![b'p'; n]) });
                left -= n;
                i += 1;
            }
        }
    }
    m
}

/// A hostile reply: the client's id and question followed by scripted octets.
fn raw_reply(query: &[u8], w: &dnswalk::Walk, script: &Value) -> Vec<u8> {
    let mut b = vec![];
    b.extend(w.id.to_be_bytes());
    b.extend((script["flags"].as_u64().unwrap_or(0x8180) as u16).to_be_bytes());
    b.extend((script["qd"].as_u64().unwrap_or(1) as u16).to_be_bytes());
    for i in 0..3 {
        b.extend((script["counts"][i].as_u64().unwrap_or(0) as u16).to_be_bytes());
    }
    if w.qend > 12 && w.qend <= query.len() {
        b.extend(&query[12..w.qend]);
    }
    b.extend(unhex(script["tail"].as_str().unwrap_or("")));
    if let Some(n) = script["cut"].as_u64() {
        b.truncate(n as usize);
    }
    b
}

/// what the upstream said, in the projection the client side uses too
fn abstract_reply(m: &AMsg) -> Value {
    let (_, secs) = dnswire::expected(m);
    json!({"rcode": m.rcode & 15,
           "an": secs[0].iter().map(rec_json).collect::<Vec<_>>(),
           "ns": secs[1].iter().map(rec_json).collect::<Vec<_>>(),
           "ar": secs[2].iter().filter(|r| r.rtype != 41).map(rec_json).collect::<Vec<_>>()})
}

/// the key under which the case scripts an upstream behaviour: lower-cased name + type
fn token_of(qname: &dnswire::Name, qtype: u16) -> String {
    format!("{}/{}", name_digest(&dnswalk::lower(qname)), qtype)
}

async fn upstream_udp(sh: Arc<Shared>, k: u64, addr: IpAddr) {
    let sock = match tokio::net::UdpSocket::bind(SocketAddr::new(addr, 53)).await {
        Ok(s) => Arc::new(s),
        Err(e) => {
            eprintln!("rig: upstream {} cannot bind {}: {}", k, addr, e);
            std::process::exit(3)
        }
    };
    let mut buf = vec![0u8; 65536];
    loop {
        let (n, from) = match sock.recv_from(&mut buf).await {
            Ok(x) => x,
            Err(_) => continue,
        };
        let w = dnswalk::walk(&buf[..n]);
        let tok = token_of(&w.qname, w.qtype);
        let script = {
            let s = sh.scripts.lock().unwrap();
            s.get(&tok).or_else(|| s.get("default")).cloned().unwrap_or(json!({}))
        };
        let nth = {
            let mut s = sh.seen.lock().unwrap();
            let e = s.entry(format!("{}/udp", tok)).or_insert(0);
            *e += 1;
            *e
        };
        sh.emit(json!({"ev":"urecv","up":k,"proto":"udp","tok":tok,"id":w.id,"nth":nth,"from_port":from.port(),"rd":(w.flags >> 8) & 1}));
        let drops = script["drops"].as_u64().unwrap_or(0) as u32;
        let kind = script["kind"].as_str().unwrap_or("ok").to_string();
        if nth <= drops || kind == "silent" {
            sh.emit(json!({"ev":"usend","up":k,"proto":"udp","tok":tok,"kind":"drop"}));
            continue;
        }
        if kind == "raw" {
            let bytes = raw_reply(&buf[..n], &w, &script);
            let _ = sock.send_to(&bytes, from).await;
            sh.emit(json!({"ev":"usend","up":k,"proto":"udp","tok":tok,"kind":"raw","len":bytes.len()}));
            continue;
        }
        let mut m = answer_for(&w.qname, w.qtype, &script, w.id);
        let mut copies = 1;
        let mut delay = 0u64;
        match kind.as_str() {
            "wrongid" => m.id = w.id ^ 0x5a5a,
            "tc" => {
                m.tc = true;
                m.secs = Default::default();
            }
            "dup" => copies = 2,
            "late" => delay = script["delay_ms"].as_u64().unwrap_or(500),
            _ => {}
        }
        let bytes = dnswire::encode_plain(&m, script["compress"].as_bool().unwrap_or(false));
        let abs = abstract_reply(&m);
        let (sock2, sh2, tok2) = (sock.clone(), sh.clone(), tok.clone());
        tokio::spawn(async move {
            if delay > 0 {
                tokio::time::sleep(std::time::Duration::from_millis(delay)).await;
            }
            for _ in 0..copies {
                let _ = sock2.send_to(&bytes, from).await;
                let mut e = abs.clone();
                e["ev"] = json!("usend");
                e["up"] = json!(k);
                e["proto"] = json!("udp");
                e["tok"] = json!(tok2);
                e["kind"] = json!(kind);
                e["len"] = json!(bytes.len());
                sh2.emit(e);
            }
        });
    }
}

async fn upstream_tcp(sh: Arc<Shared>, k: u64, addr: IpAddr) {
    let lis = match tokio::net::TcpListener::bind(SocketAddr::new(addr, 53)).await {
        Ok(s) => s,
        Err(e) => {
            eprintln!("rig: upstream {} cannot listen on {}: {}", k, addr, e);
            std::process::exit(3)
        }
    };
    loop {
        let (s, _) = match lis.accept().await {
            Ok(x) => x,
            Err(_) => continue,
        };
        let sh = sh.clone();
        tokio::spawn(async move {
            let (mut rd, wr) = s.into_split();
            let wr = Arc::new(tokio::sync::Mutex::new(wr));
            // replies held back for reordering: released (newest first) by the next query on the connection or after 700 ms
            let pending: Arc<tokio::sync::Mutex<Vec<(Vec<u8>, Value)>>> = Arc::new(tokio::sync::Mutex::new(vec![]));
            loop {
                let mut lb = [0u8; 2];
                if rd.read_exact(&mut lb).await.is_err() {
                    break;
                }
                let mut b = vec![0u8; u16::from_be_bytes(lb) as usize];
                if rd.read_exact(&mut b).await.is_err() {
                    break;
                }
                let w = dnswalk::walk(&b);
                let tok = token_of(&w.qname, w.qtype);
                let script = {
            let s = sh.scripts.lock().unwrap();
            s.get(&tok).or_else(|| s.get("default")).cloned().unwrap_or(json!({}))
        };
                let nth = {
                    let mut s = sh.seen.lock().unwrap();
                    let e = s.entry(format!("{}/tcp", tok)).or_insert(0);
                    *e += 1;
                    *e
                };
                sh.emit(json!({"ev":"urecv","up":k,"proto":"tcp","tok":tok,"id":w.id,"nth":nth,"from_port":0,"rd":(w.flags >> 8) & 1}));
                let kind = script["tcp_kind"].as_str().unwrap_or("ok").to_string();
                if kind == "silent" {
                    continue;
                }
                if kind == "close" || kind == "halfclose" {
                    // the upstream hangs up on the connection, with or without the beginning of a reply
                    if kind == "halfclose" {
                        let m = answer_for(&w.qname, w.qtype, &script, w.id);
                        let bytes = dnswire::encode_plain(&m, false);
                        let mut framed = (bytes.len() as u16).to_be_bytes().to_vec();
                        framed.extend(&bytes[..bytes.len().min(7)]);
                        let _ = wr.lock().await.write_all(&framed).await;
                    }
                    sh.emit(json!({"ev":"usend","up":k,"proto":"tcp","tok":tok,"kind":kind,"len":0}));
                    let _ = wr.lock().await.shutdown().await;
                    break;
                }
                if kind == "raw" {
                    // hostile reply over TCP; the frame length may lie too
                    let bytes = raw_reply(&b, &w, &script);
                    let flen = match script["tcp_frame"].as_str().unwrap_or("exact") {
                        "zero" => 0,
                        "short" => bytes.len().saturating_sub(3),
                        "long" => bytes.len() + 50,
                        "max" => 65535,
                        _ => bytes.len(),
                    };
                    let mut framed = (flen as u16).to_be_bytes().to_vec();
                    framed.extend(&bytes);
                    let _ = wr.lock().await.write_all(&framed).await;
                    sh.emit(json!({"ev":"usend","up":k,"proto":"tcp","tok":tok,"kind":"raw","len":bytes.len()}));
                    continue;
                }
                let m = answer_for(&w.qname, w.qtype, &script, w.id);
                let bytes = dnswire::encode_plain(&m, script["compress"].as_bool().unwrap_or(false));
                let mut framed = (bytes.len() as u16).to_be_bytes().to_vec();
                framed.extend(&bytes);
                if kind == "late" {
                    let (w3, sh3, tok3, d) = (wr.clone(), sh.clone(), tok.clone(), script["tcp_delay_ms"].as_u64().unwrap_or(7000));
                    let mut e = abstract_reply(&m);
                    tokio::spawn(async move {
                        tokio::time::sleep(std::time::Duration::from_millis(d)).await;
                        let _ = w3.lock().await.write_all(&framed).await;
                        e["ev"] = json!("usend");
                        e["up"] = json!(k);
                        e["proto"] = json!("tcp");
                        e["tok"] = json!(tok3);
                        e["kind"] = json!("late");
                        e["len"] = json!(framed.len() - 2);
                        sh3.emit(e);
                    });
                    continue;
                }
                if kind == "hold" {
                    // what is held back is recorded in full when it is released: the follower needs to know what the upstream said
                    let mut held_ev = abstract_reply(&m);
                    held_ev["ev"] = json!("usend");
                    held_ev["up"] = json!(k);
                    held_ev["proto"] = json!("tcp");
                    held_ev["tok"] = json!(tok);
                    held_ev["kind"] = json!("ok");
                    held_ev["reordered"] = json!(true);
                    held_ev["len"] = json!(framed.len() - 2);
                    pending.lock().await.push((framed, held_ev));
                    let (p2, w3, sh3) = (pending.clone(), wr.clone(), sh.clone());
                    tokio::spawn(async move {
                        tokio::time::sleep(std::time::Duration::from_millis(700)).await;
                        let mut held = p2.lock().await;
                        let mut w = w3.lock().await;
                        for (p, ev) in held.drain(..).rev() {
                            let _ = w.write_all(&p).await;
                            sh3.emit(ev);
                        }
                    });
                    continue;
                }
                let mut w2 = wr.lock().await;
                let _ = w2.write_all(&framed).await;
                let mut e = abstract_reply(&m);
                e["ev"] = json!("usend");
                e["up"] = json!(k);
                e["proto"] = json!("tcp");
                e["tok"] = json!(tok);
                e["kind"] = json!(kind);
                e["len"] = json!(bytes.len());
                sh.emit(e);
                let mut held = pending.lock().await;
                for (p, ev) in held.drain(..).rev() {
                    let _ = w2.write_all(&p).await;
                    sh.emit(ev);
                }
            }
        });
    }
}

pub fn start_upstreams(sh: &Arc<Shared>, n: u64) {
    for k in 1..=n {
        tokio::spawn(upstream_udp(sh.clone(), k, up4(k)));
        tokio::spawn(upstream_tcp(sh.clone(), k, up4(k)));
        tokio::spawn(upstream_udp(sh.clone(), k, up6(k)));
        tokio::spawn(upstream_tcp(sh.clone(), k, up6(k)));
    }
}

// ------------------------------------------------------------------ clients --
pub struct Listeners {
    pub v4: SocketAddr,
    pub v6: SocketAddr,
    pub dual: u16,
}
pub fn listeners() -> Listeners {
    Listeners { v4: "127.0.0.1:5301".parse().unwrap(), v6: "[::1]:5302".parse().unwrap(), dual: 5303 }
}

fn reply_json(b: &[u8]) -> Value {
    let w = dnswalk::walk(b);
    json!({"parse_ok":w.ok,"why":w.why,"id":w.id,"qr":(w.flags >> 15) & 1,"tc":(w.flags >> 9) & 1,"rcode":w.flags & 15,
           "qd":[name_digest(&w.qname), w.qtype, w.qclass],
           "counts":[w.counts[1], w.counts[2], w.counts[3]],
           "an":w.secs[0].iter().map(rec_json).collect::<Vec<_>>(),
           "ns":w.secs[1].iter().map(rec_json).collect::<Vec<_>>(),
           "ar":w.secs[2].iter().filter(|r| r.rtype != 41).map(rec_json).collect::<Vec<_>>(),
           "opt":w.secs.iter().map(|s| s.iter().filter(|r| r.rtype == 41).count()).sum::<usize>(),
           "len":b.len()})
}

/// one client query; events csend / crecv* / cnone
pub async fn client_query(sh: Arc<Shared>, q: Value) {
    let l = listeners();
    let listener = q["listener"].as_str().unwrap_or("dual4");
    let src: IpAddr = q["src"].as_str().unwrap_or(match listener {
        "v4" | "dual4" => "127.0.20.1",
        _ => "::1",
    }).parse().unwrap();
    let dst: SocketAddr = match listener {
        "v4" => l.v4,
        "v6" => l.v6,
        "dual4" => SocketAddr::new(q["dst"].as_str().unwrap_or("127.0.0.1").parse().unwrap(), l.dual),
        _ => SocketAddr::new(q["dst"].as_str().unwrap_or("::1").parse().unwrap(), l.dual),
    };
    let name: dnswire::Name = q["name"].as_array().unwrap().iter().map(|l| l.as_str().unwrap().as_bytes().to_vec()).collect();
    let id = q["id"].as_u64().unwrap() as u16;
    let edns = q["adv"].as_i64().filter(|a| *a >= 0).map(|a| (a as u16, q["do"].as_bool().unwrap_or(false),
        q["cookie"].as_array().map(|c| vec![(10u16, c.iter().map(|x| x.as_u64().unwrap() as u8).collect::<Vec<u8>>())]).unwrap_or_default()));
    let bytes = build_query(id, q["rd"].as_bool().unwrap_or(true), q["cd"].as_bool().unwrap_or(false), false, &name,
                            q["qtype"].as_u64().unwrap_or(1) as u16, q["qclass"].as_u64().unwrap_or(1) as u16, edns);
    let wait = std::time::Duration::from_millis(q["wait_ms"].as_u64().unwrap_or(4000));
    let qid = q["q"].clone();
    let proto = q["proto"].as_str().unwrap_or("udp");
    let tok = token_of(&name, q["qtype"].as_u64().unwrap_or(1) as u16);
    let client = match src {
        IpAddr::V4(a) => json!({"fam":"v4","a":a.octets()}),
        IpAddr::V6(a) => json!({"fam":"v6","a":a.octets()}),
    };
    let common = json!({"q":qid,"listener":listener,"src":src.to_string(),"dst":dst.to_string(),"id":id,"tok":tok,
        "name":name.iter().map(|l| l.iter().map(|b| json!(b)).collect::<Vec<_>>()).collect::<Vec<_>>(),
        "rd":q["rd"].as_bool().unwrap_or(true),"edns":q["adv"].as_i64().unwrap_or(-1) >= 0,"do":q["do"].as_bool().unwrap_or(false) && q["adv"].as_i64().unwrap_or(-1) >= 0,"cd":q["cd"].as_bool().unwrap_or(false),"client":client,"pipelined":false,"adv":q["adv"].as_i64().unwrap_or(-1).max(0),
        "upkind":q["upkind"].as_str().unwrap_or("ok"),"drops":q["drops"].as_u64().unwrap_or(0),"cached":q["cached"].as_bool().unwrap_or(false),
        "mixedcase":name.iter().any(|l| l.iter().any(|b| b.is_ascii_uppercase())),
        "qd":[name_digest(&name), q["qtype"].as_u64().unwrap_or(1), q["qclass"].as_u64().unwrap_or(1)],"len":bytes.len()});
    if proto == "udp" {
        let sock = match tokio::net::UdpSocket::bind(SocketAddr::new(src, 0)).await {
            Ok(s) => s,
            Err(e) => {
                sh.emit(json!({"ev":"cerr","q":qid,"err":format!("bind {}: {}", src, e)}));
                return;
            }
        };
        let sport = sock.local_addr().map(|a| a.port()).unwrap_or(0);
        let mut e = common.clone();
        e["ev"] = json!("csend");
        e["proto"] = json!("udp");
        e["sport"] = json!(sport);
        sh.emit(e);
        if let Err(e) = sock.send_to(&bytes, dst).await {
            sh.emit(json!({"ev":"cerr","q":qid,"err":format!("send: {}", e)}));
            return;
        }
        let mut buf = vec![0u8; 65536];
        let mut got = 0;
        let mut deadline = wait;
        loop {
            match tokio::time::timeout(deadline, sock.recv_from(&mut buf)).await {
                Ok(Ok((n, from))) => {
                    got += 1;
                    let mut r = reply_json(&buf[..n]);
                    r["ev"] = json!("crecv");
                    r["q"] = qid.clone();
                    r["nth"] = json!(got);
                    r["from"] = json!(from.to_string());
                    r["from_ok"] = json!(from == dst);
                    sh.emit(r);
                    deadline = std::time::Duration::from_millis(q["linger_ms"].as_u64().unwrap_or(300)); // any duplicates?
                }
                _ => break,
            }
        }
        if got == 0 {
            sh.emit(json!({"ev":"cnone","q":qid,"waited_ms":wait.as_millis() as u64}));
        }
    } else {
        let sock = if src.is_ipv4() { tokio::net::TcpSocket::new_v4() } else { tokio::net::TcpSocket::new_v6() }.unwrap();
        let _ = sock.bind(SocketAddr::new(src, 0));
        let mut e = common.clone();
        e["ev"] = json!("csend");
        e["proto"] = json!("tcp");
        e["sport"] = json!(0);
        sh.emit(e);
        let mut s = match tokio::time::timeout(std::time::Duration::from_secs(3), sock.connect(dst)).await {
            Ok(Ok(s)) => s,
            _ => {
                sh.emit(json!({"ev":"cnone","q":qid,"waited_ms":0,"why":"connect failed"}));
                return;
            }
        };
        let mut framed = (bytes.len() as u16).to_be_bytes().to_vec();
        framed.extend(&bytes);
        if s.write_all(&framed).await.is_err() {
            sh.emit(json!({"ev":"cnone","q":qid,"waited_ms":0,"why":"write failed"}));
            return;
        }
        let mut got = 0;
        let mut deadline = wait;
        loop {
            let mut lb = [0u8; 2];
            match tokio::time::timeout(deadline, s.read_exact(&mut lb)).await {
                Ok(Ok(_)) => {
                    let mut b = vec![0u8; u16::from_be_bytes(lb) as usize];
                    if tokio::time::timeout(std::time::Duration::from_secs(3), s.read_exact(&mut b)).await.map(|r| r.is_err()).unwrap_or(true) {
                        sh.emit(json!({"ev":"cerr","q":qid,"err":"short TCP frame"}));
                        break;
                    }
                    got += 1;
                    let mut r = reply_json(&b);
                    r["ev"] = json!("crecv");
                    r["q"] = qid.clone();
                    r["nth"] = json!(got);
                    r["from"] = json!(dst.to_string());
                    r["from_ok"] = json!(true);
                    sh.emit(r);
                    deadline = std::time::Duration::from_millis(q["linger_ms"].as_u64().unwrap_or(300));
                }
                _ => break,
            }
        }
        if got == 0 {
            sh.emit(json!({"ev":"cnone","q":qid,"waited_ms":wait.as_millis() as u64}));
        }
        // a client that keeps its connection open after the answer (connection reuse): others must not have to wait for it
        if let Some(h) = q["hold_ms"].as_u64() {
            tokio::time::sleep(std::time::Duration::from_millis(h)).await;
        }
        drop(s);
    }
}

/// Several queries on ONE client TCP connection: all frames are written back to back (optionally cut into pieces of
/// `chop` octets with pauses, so that frames straddle segments), then replies are read until every query has one
/// or the time is up.  Events as for single queries (csend / crecv / cnone), replies matched by id.
pub async fn client_pipeline(sh: Arc<Shared>, qs: Vec<Value>) {
    let l = listeners();
    let q0 = &qs[0];
    let listener = q0["listener"].as_str().unwrap_or("dual4");
    let src: IpAddr = q0["src"].as_str().unwrap_or(match listener {
        "v4" | "dual4" => "127.0.20.1",
        _ => "::1",
    }).parse().unwrap();
    let dst: SocketAddr = match listener {
        "v4" => l.v4,
        "v6" => l.v6,
        "dual4" => SocketAddr::new(q0["dst"].as_str().unwrap_or("127.0.0.1").parse().unwrap(), l.dual),
        _ => SocketAddr::new(q0["dst"].as_str().unwrap_or("::1").parse().unwrap(), l.dual),
    };
    let client = match src {
        IpAddr::V4(a) => json!({"fam":"v4","a":a.octets()}),
        IpAddr::V6(a) => json!({"fam":"v6","a":a.octets()}),
    };
    let mut stream_bytes = vec![];
    let mut ids: HashMap<u16, Value> = HashMap::new();
    for q in &qs {
        let name: dnswire::Name = q["name"].as_array().unwrap().iter().map(|l| l.as_str().unwrap().as_bytes().to_vec()).collect();
        let id = q["id"].as_u64().unwrap() as u16;
        let edns = q["adv"].as_i64().filter(|a| *a >= 0).map(|a| (a as u16, q["do"].as_bool().unwrap_or(false), vec![]));
        let qtype = q["qtype"].as_u64().unwrap_or(1) as u16;
        let bytes = build_query(id, q["rd"].as_bool().unwrap_or(true), q["cd"].as_bool().unwrap_or(false), false, &name, qtype, 1, edns);
        stream_bytes.extend((bytes.len() as u16).to_be_bytes());
        stream_bytes.extend(&bytes);
        ids.insert(id, q["q"].clone());
        sh.emit(json!({"ev":"csend","q":q["q"],"listener":listener,"src":src.to_string(),"dst":dst.to_string(),"id":id,"tok":token_of(&name, qtype),
            "name":name.iter().map(|l| l.iter().map(|b| json!(b)).collect::<Vec<_>>()).collect::<Vec<_>>(),
            "rd":q["rd"].as_bool().unwrap_or(true),"edns":q["adv"].as_i64().unwrap_or(-1) >= 0,"do":q["do"].as_bool().unwrap_or(false) && q["adv"].as_i64().unwrap_or(-1) >= 0,"cd":q["cd"].as_bool().unwrap_or(false),
            "client":client,"adv":q["adv"].as_i64().unwrap_or(-1).max(0),"upkind":q["upkind"].as_str().unwrap_or("ok"),"drops":q["drops"].as_u64().unwrap_or(0),
            "cached":q["cached"].as_bool().unwrap_or(false),"mixedcase":name.iter().any(|l| l.iter().any(|b| b.is_ascii_uppercase())),
            "qd":[name_digest(&name), qtype, 1],"len":bytes.len(),"proto":"tcp","sport":0,"pipelined":true}));
    }
    let sock = if src.is_ipv4() { tokio::net::TcpSocket::new_v4() } else { tokio::net::TcpSocket::new_v6() }.unwrap();
    let _ = sock.bind(SocketAddr::new(src, 0));
    let mut s = match tokio::time::timeout(std::time::Duration::from_secs(3), sock.connect(dst)).await {
        Ok(Ok(s)) => s,
        _ => {
            for q in &qs {
                sh.emit(json!({"ev":"cnone","q":q["q"],"waited_ms":0,"why":"connect failed"}));
            }
            return;
        }
    };
    let chop = q0["chop"].as_u64().unwrap_or(0) as usize;
    if chop == 0 {
        let _ = s.write_all(&stream_bytes).await;
    } else {
        for piece in stream_bytes.chunks(chop) {
            let _ = s.write_all(piece).await;
            let _ = s.flush().await;
            tokio::time::sleep(std::time::Duration::from_millis(3)).await;
        }
    }
    let wait = std::time::Duration::from_millis(q0["wait_ms"].as_u64().unwrap_or(5000));
    let end = tokio::time::Instant::now() + wait;
    let mut answered: std::collections::HashSet<u16> = Default::default();
    let mut counts: HashMap<u16, u64> = HashMap::new();
    loop {
        let left = end.saturating_duration_since(tokio::time::Instant::now());
        // once everybody has a reply, linger a little for duplicates
        let budget = if answered.len() == ids.len() { std::time::Duration::from_millis(200) } else { left };
        if budget.is_zero() {
            break;
        }
        let mut lb = [0u8; 2];
        match tokio::time::timeout(budget, s.read_exact(&mut lb)).await {
            Ok(Ok(_)) => {
                let mut b = vec![0u8; u16::from_be_bytes(lb) as usize];
                if tokio::time::timeout(std::time::Duration::from_secs(3), s.read_exact(&mut b)).await.map(|r| r.is_err()).unwrap_or(true) {
                    break;
                }
                let id = if b.len() >= 2 { u16::from_be_bytes([b[0], b[1]]) } else { 0 };
                let mut r = reply_json(&b);
                let n = counts.entry(id).or_insert(0);
                *n += 1;
                r["ev"] = json!("crecv");
                r["q"] = ids.get(&id).cloned().unwrap_or(json!(-1));
                r["nth"] = json!(*n);
                r["from"] = json!(dst.to_string());
                r["from_ok"] = json!(true);
                sh.emit(r);
                answered.insert(id);
            }
            _ => break,
        }
    }
    for (id, q) in &ids {
        if !answered.contains(id) {
            sh.emit(json!({"ev":"cnone","q":q,"waited_ms":wait.as_millis() as u64}));
        }
    }
}

// ------------------------------------------------------------------ service --
pub fn routes_yaml(routes: &[Value]) -> String {
    let mut s = String::from("dns-routes:\n");
    if routes.is_empty() {
        return "dns-routes: []\n".into();
    }
    for r in routes {
        let sufs: Vec<String> = r["suffixes"].as_array().unwrap().iter().map(|x| format!("\"{}\"", x.as_str().unwrap())).collect();
        let mut f = vec![format!("domain-suffixes: [{}]", sufs.join(", "))];
        if r["kind"] == "nxdomain" {
            f.push("type: forge-nxdomain".into());
        } else {
            f.push("type: forward".into());
            let k = r["up"].as_u64().unwrap_or(1);
            f.push(format!("dns-servers: [\"{}\"]", if r["v6"].as_bool().unwrap_or(false) { up6(k) } else { up4(k) }));
        }
        s.push_str(&format!("  - {{{}}}\n", f.join(", ")));
    }
    s
}

pub async fn start_dns(acls_yaml: &str, routes: &[Value]) -> erbium::config::SharedConfig {
    let l = listeners();
    let yaml = format!("dns-listeners: [\"{}\", \"{}\", \"[::]:{}\"]\n{}{}", l.v4, l.v6, l.dual, acls_yaml, routes_yaml(routes));
    let conf = erbium::config::verif_load_config_from_string(&yaml).unwrap_or_else(|e| {
        eprintln!("rig: service configuration rejected: {}\n{}", e, yaml);
        std::process::exit(2)
    });
    let netinfo = erbium_net::netinfo::SharedNetInfo::new().await;
    let svc = match erbium::dns::DnsService::new(conf.clone(), &netinfo).await {
        Ok(s) => s,
        Err(e) => {
            eprintln!("rig: cannot start the DNS service: {}", e);
            std::process::exit(3)
        }
    };
    tokio::spawn(async move {
        let _ = svc.run().await;
    });
    tokio::time::sleep(std::time::Duration::from_millis(100)).await;
    conf
}

/// swap routes / ACLs of the live configuration (read at query time by the service)
pub async fn reconfigure(live: &erbium::config::SharedConfig, acls_yaml: &str, routes: &[Value]) -> Result<(), String> {
    let yaml = format!("{}{}", acls_yaml, routes_yaml(routes));
    let loaded = erbium::config::verif_load_config_from_string(&yaml).map_err(|e| format!("{}\n{}", e, yaml))?;
    let mut a = live.write().await;
    let mut b = loaded.write().await;
    std::mem::swap(&mut a.dns_routes, &mut b.dns_routes);
    std::mem::swap(&mut a.acls, &mut b.acls);
    Ok(())
}

pub const OPEN_ACLS: &str = "acls:\n  - {apply-access: [dns-recursion, http, http-metrics, http-leases]}\n";

/// `rig dns`: cases = {routes, acls (rule list or null), queries:[...], scripts:{token: script}}
fn dns(args: &[String]) {
    let cases = read_ndjson(&arg(args, "--cases").expect("--cases"));
    let mut out = Trace::create(&arg(args, "--out").expect("--out"));
    setup_namespace();
    let rt = tokio::runtime::Builder::new_multi_thread().worker_threads(4).enable_all().build().unwrap();
    rt.block_on(async {
        let sh = Shared::new();
        start_upstreams(&sh, 6);
        let live = start_dns(OPEN_ACLS, &[]).await;
        for (ci, case) in cases.iter().enumerate() {
            let routes = case["routes"].as_array().cloned().unwrap_or_default();
            let acls = match case["acls"].as_array() {
                Some(r) => crate::acl::render_acls(r),
                None => OPEN_ACLS.to_string(),
            };
            if let Err(e) = reconfigure(&live, &acls, &routes).await {
                out.emit(json!({"ev":"cfg_rejected","case":ci,"err":e}));
                continue;
            }
            {
                let mut s = sh.scripts.lock().unwrap();
                s.clear();
                if let Some(m) = case["scripts"].as_object() {
                    for (k, v) in m {
                        s.insert(k.clone(), v.clone());
                    }
                }
                sh.seen.lock().unwrap().clear();
            }
            let routes_abs: Vec<Value> = routes.iter().map(|r| json!({
                "suffixes": r["suffixes"].as_array().unwrap().iter().map(|s| s.as_str().unwrap().split('.').filter(|l| !l.is_empty())
                                .map(|l| l.bytes().map(|b| json!(b)).collect::<Vec<_>>()).collect::<Vec<_>>()).collect::<Vec<_>>(),
                "kind": r["kind"], "up": r["up"].as_u64().unwrap_or(0)})).collect();
            erbium::dns::verif::FORCE_ID.store(case["force_id"].as_i64().unwrap_or(-1) as i32, Ordering::SeqCst);
            out.emit(json!({"ev":"case","case":ci,"open":case["acls"].is_null(),"acls":case["acls"].as_array().cloned().unwrap_or_default(),
                            "routes":routes_abs,"forced":case["force_id"].as_i64().is_some(),"meta":if case["meta"].is_null() { json!({}) } else { case["meta"].clone() }}));
            // queries grouped in waves: a wave runs concurrently, waves run one after the other
            let mut waves: Vec<Vec<Value>> = vec![];
            for q in case["queries"].as_array().unwrap() {
                let w = q["wave"].as_u64().unwrap_or(0) as usize;
                while waves.len() <= w {
                    waves.push(vec![]);
                }
                waves[w].push(q.clone());
            }
            for wave in waves {
                let mut hs = vec![];
                // queries with the same "pipe" number share one TCP connection
                let mut pipes: std::collections::BTreeMap<u64, Vec<Value>> = Default::default();
                for q in wave {
                    if let Some(p) = q["pipe"].as_u64() {
                        pipes.entry(p).or_default().push(q);
                        continue;
                    }
                    if let Some(d) = q["sleep_before_ms"].as_u64() {
                        tokio::time::sleep(std::time::Duration::from_millis(d)).await;
                    }
                    hs.push(tokio::spawn(client_query(sh.clone(), q)));
                }
                for (_, qs) in pipes {
                    hs.push(tokio::spawn(client_pipeline(sh.clone(), qs)));
                }
                for h in hs {
                    let _ = h.await;
                }
            }
            // let stragglers (late upstream replies, duplicate sends) land in this case
            tokio::time::sleep(std::time::Duration::from_millis(case["settle_ms"].as_u64().unwrap_or(50))).await;
            for e in sh.drain() {
                out.emit(e);
            }
            let np = {
                let mut p = PANICS.lock().unwrap();
                let n = p.len();
                let first = p.first().cloned().unwrap_or_default();
                p.clear();
                (n, first)
            };
            out.emit(json!({"ev":"endcase","case":ci,"panics":np.0,"first_panic":np.1}));
        }
    });
    let n = out.finish();
    eprintln!("rig dns: {} cases, {} events", cases.len(), n);
    std::process::exit(0); // background tasks hold sockets; do not wait for them
}

/// one raw datagram / stream to a DNS listener; replies (if any) are counted, not awaited for long
async fn send_raw_query(dst: SocketAddr, src: IpAddr, proto: &str, bytes: Vec<u8>) -> usize {
    match proto {
        "udp" => {
            let sock = match tokio::net::UdpSocket::bind(SocketAddr::new(src, 0)).await {
                Ok(s) => s,
                Err(_) => return 0,
            };
            let _ = sock.send_to(&bytes, dst).await;
            let mut buf = vec![0u8; 65536];
            match tokio::time::timeout(std::time::Duration::from_millis(150), sock.recv_from(&mut buf)).await {
                Ok(Ok(_)) => 1,
                _ => 0,
            }
        }
        _ => {
            // "tcp": framed correctly; "tcp-zero"/"tcp-short"/"tcp-long": the frame length lies; "tcp-raw": no frame at all
            let sock = if src.is_ipv4() { tokio::net::TcpSocket::new_v4() } else { tokio::net::TcpSocket::new_v6() }.unwrap();
            let _ = sock.bind(SocketAddr::new(src, 0));
            let mut s = match tokio::time::timeout(std::time::Duration::from_secs(2), sock.connect(dst)).await {
                Ok(Ok(s)) => s,
                _ => return 0,
            };
            let flen = match proto {
                "tcp-zero" => Some(0),
                "tcp-short" => Some(bytes.len().saturating_sub(3)),
                "tcp-long" => Some(bytes.len() + 50),
                "tcp-raw" => None,
                _ => Some(bytes.len()),
            };
            let mut framed = vec![];
            if let Some(l) = flen {
                framed.extend((l as u16).to_be_bytes());
            }
            framed.extend(&bytes);
            let _ = s.write_all(&framed).await;
            let mut lb = [0u8; 2];
            let got = matches!(tokio::time::timeout(std::time::Duration::from_millis(200), s.read_exact(&mut lb)).await, Ok(Ok(_)));
            let _ = s.shutdown().await;
            got as usize
        }
    }
}

/// `rig hostile`: C05 at service level.  Batches of hostile client datagrams/streams and hostile
/// upstream replies (built from the WireGrammar cases) against the real DNS service, then a
/// valid query that must be answered.  One `svc` event per batch.
fn hostile(args: &[String]) {
    let cases = read_ndjson(&arg(args, "--cases").expect("--cases"));
    let mut out = Trace::create(&arg(args, "--out").expect("--out"));
    let batch = arg_u64(args, "--batch", 150) as usize;
    setup_namespace();
    let rt = tokio::runtime::Builder::new_multi_thread().worker_threads(4).enable_all().build().unwrap();
    rt.block_on(async {
        let sh = Shared::new();
        start_upstreams(&sh, 2);
        let routes = vec![json!({"suffixes": [""], "kind": "forward", "up": 1})];
        let _live = start_dns(OPEN_ACLS, &routes).await;
        let l = listeners();
        let hname: dnswire::Name = vec![b"h".to_vec(), b"example".to_vec()];
        for (bi, part) in cases.chunks(batch).enumerate() {
            out.emit(json!({"ev":"svcstart","case":bi}));
            out.flush();
            {
                let mut s = sh.scripts.lock().unwrap();
                s.clear();
                sh.seen.lock().unwrap().clear();
            }
            let mut hs = vec![];
            let mut nhostile = 0usize;
            let mut nupstream = 0usize;
            for (i, c) in part.iter().enumerate() {
                // (1) hostile payloads straight at the listeners
                for (k, b) in crate::ingest::build(c) {
                    if k != "dnsq" {
                        continue;
                    }
                    let src: IpAddr = format!("127.0.30.{}", 1 + (i % 200)).parse().unwrap();
                    let (dst, src) = match i % 3 {
                        0 => (l.v4, src),
                        1 => (SocketAddr::new("127.0.0.1".parse().unwrap(), l.dual), src),
                        _ => (l.v6, "::1".parse().unwrap()),
                    };
                    let proto = match i % 11 {
                        3 => "tcp",
                        5 => "tcp-short",
                        7 => "tcp-long",
                        8 => "tcp-zero",
                        9 => "tcp-raw",
                        _ => "udp",
                    };
                    nhostile += 1;
                    hs.push(tokio::spawn(async move { send_raw_query(dst, src, proto, b).await }));
                }
                // (2) a valid query whose upstream answers with the hostile parts behind the question
                if let Some(p) = crate::ingest::dns_parts(c).filter(|_| c["pos"].as_str() != Some("qname")) {
                    let qtype = 300 + i as u16;
                    let mut script = json!({"kind":"raw","tcp_kind":"raw","counts":p.counts(),"tail":hex(&p.after_question())});
                    if let Some(n) = p.cut_after {
                        script["cut"] = json!(n);
                    }
                    // every fifth case: the UDP reply says "truncated", the hostile reply comes over TCP with a lying frame
                    if i % 5 == 4 {
                        script["kind"] = json!("tc");
                        script["tcp_frame"] = json!(["exact", "zero", "short", "long", "max"][(i / 5) % 5]);
                    }
                    sh.scripts.lock().unwrap().insert(token_of(&hname, qtype), script);
                    nupstream += 1;
                    let q = json!({"q": format!("h{}", i), "listener": "v4", "src": format!("127.0.31.{}", 1 + (i % 200)), "name": ["h", "example"], "id": 1000 + i,
                                   "qtype": qtype, "adv": 1232, "proto": "udp", "wait_ms": 12000, "linger_ms": 10});
                    hs.push(tokio::spawn(async move {
                        client_query_count(q).await
                    }));
                }
                if i % 16 == 15 {
                    tokio::time::sleep(std::time::Duration::from_millis(2)).await;
                }
            }
            let mut replies = 0usize;
            for h in hs {
                replies += h.await.unwrap_or(0);
            }
            // (3) the valid request afterwards, over UDP and TCP
            let mut answered = true;
            let mut detail = String::new();
            for (pi, proto) in ["udp", "tcp"].iter().enumerate() {
                let q = json!({"q": "probe", "listener": "v4", "src": "127.0.20.1", "name": [format!("probe{}x{}", bi, pi), "example"], "id": 7000 + bi, "qtype": 1,
                               "adv": 1232, "proto": proto, "wait_ms": 6000, "linger_ms": 10});
                client_query(sh.clone(), q).await;
            }
            let evs = sh.drain();
            for proto in ["udp", "tcp"] {
                let _ = proto;
            }
            let good = evs.iter().filter(|e| e["ev"] == "crecv" && e["q"] == "probe" && e["rcode"] == 0 && e["counts"][0].as_u64().unwrap_or(0) >= 1 && e["id"] == 7000 + bi).count();
            if good < 2 {
                answered = false;
                detail = format!("{} of 2 probes answered", good);
            }
            let np = {
                let mut p = PANICS.lock().unwrap();
                let n = p.len();
                let first = p.first().cloned().unwrap_or_default();
                p.clear();
                (n, first)
            };
            if np.0 > 0 {
                detail = np.1.clone();
            }
            out.emit(json!({"ev":"svc","case":bi,"hostile":nhostile,"hostile_upstream":nupstream,"replies":replies,"panics":np.0,"alive":true,"answered":answered,"detail":detail,
                            "cases":[part.first().cloned().unwrap_or(json!({})), part.last().cloned().unwrap_or(json!({}))]}));
            out.flush();
        }
    });
    let n = out.finish();
    eprintln!("rig hostile: {} cases, {} events", cases.len(), n);
    std::process::exit(0);
}

/// `rig flood`: C16 at service level.  Sources without any permission send bursts of queries to the
/// real listener; every REFUSED datagram that comes back is one `req` event (time in whole seconds
/// since the start of the burst, cost = octets of the datagram), every unanswered query one with
/// pass = false.  A source that never sent anything sends one query at the end.
fn flood(args: &[String]) {
    let mut out = Trace::create(&arg(args, "--out").expect("--out"));
    let n = arg_u64(args, "--n", 800) as usize;
    let bursts = arg_u64(args, "--bursts", 2) as usize;
    setup_namespace();
    let rt = tokio::runtime::Builder::new_multi_thread().worker_threads(4).enable_all().build().unwrap();
    rt.block_on(async {
        let sh = Shared::new();
        start_upstreams(&sh, 1);
        let acls = "acls:\n  - {match-subnets: [127.0.20.0/24], apply-access: [dns-recursion]}\n";
        let routes = vec![json!({"suffixes": [""], "kind": "forward", "up": 1})];
        let _live = start_dns(acls, &routes).await;
        let dst = listeners().v4;
        let long: dnswire::Name = vec![vec![b'a'; 60], vec![b'b'; 60], vec![b'c'; 60], b"example".to_vec()];
        let short: dnswire::Name = vec![b"q".to_vec(), b"example".to_vec()];
        for b in 0..bursts {
            let src: IpAddr = format!("127.0.40.{}", 1 + b).parse().unwrap();
            // even bursts: one socket (one source port); odd bursts: the same address from 200 source ports
            let nsock = if b % 2 == 0 { 1 } else { 200 };
            let t0 = std::time::Instant::now();
            let mut socks = vec![];
            let mut recvs = vec![];
            for _ in 0..nsock {
                let sock = Arc::new(tokio::net::UdpSocket::bind(SocketAddr::new(src, 0)).await.expect("bind"));
                let rsock = sock.clone();
                recvs.push(tokio::spawn(async move {
                    let mut got: Vec<(u64, usize, u16)> = vec![];
                    let mut buf = vec![0u8; 65536];
                    loop {
                        match tokio::time::timeout(std::time::Duration::from_millis(1500), rsock.recv_from(&mut buf)).await {
                            Ok(Ok((len, _))) => got.push((t0.elapsed().as_millis() as u64, len, if len >= 4 { (buf[3] & 15) as u16 } else { 99 })),
                            _ => break,
                        }
                    }
                    got
                }));
                socks.push(sock);
            }
            for i in 0..n {
                let q = build_query(i as u16, true, false, false, &long, 1, 1, Some((1232, false, vec![])));
                let _ = socks[i % nsock].send_to(&q, dst).await;
                if i % 20 == 19 {
                    tokio::time::sleep(std::time::Duration::from_millis(if b == 0 { 1 } else { 10 })).await;
                }
            }
            let mut got: Vec<(u64, usize, u16)> = vec![];
            for r in recvs {
                got.extend(r.await.unwrap_or_default());
            }
            got.sort();
            out.emit(json!({"ev":"reset","source":src.to_string(),"sent":n,"source_ports":nsock}));
            for (ms, len, rcode) in &got {
                out.emit(json!({"ev":"req","t":ms / 1000,"ms":ms,"cost":len,"pass":true,"outcome":"ok","deplete":"ok","rcode":rcode,"e2e":true}));
            }
            let last = got.last().map(|g| g.0 / 1000).unwrap_or(0);
            for _ in got.len()..n {
                out.emit(json!({"ev":"req","t":last,"ms":last * 1000,"cost":250,"pass":false,"outcome":"ok","deplete":"ok","rcode":-1,"e2e":true}));
            }
        }
        // ---- the cookie exemption at the listener: a source that presents the server cookie it was issued is not rate
        // limited; the same cookie presented from another address, or mangled, is
        async fn burst(src: IpAddr, dst: SocketAddr, name: &dnswire::Name, cookie: Option<Vec<u8>>, n: usize) -> (Vec<(u64, usize, u16)>, Option<Vec<u8>>) {
            let sock = Arc::new(tokio::net::UdpSocket::bind(SocketAddr::new(src, 0)).await.expect("bind"));
            let t0 = std::time::Instant::now();
            let rsock = sock.clone();
            let recv = tokio::spawn(async move {
                let mut got: Vec<(u64, usize, u16)> = vec![];
                let mut opt: Option<Vec<u8>> = None;
                let mut buf = vec![0u8; 65536];
                loop {
                    match tokio::time::timeout(std::time::Duration::from_millis(1200), rsock.recv_from(&mut buf)).await {
                        Ok(Ok((len, _))) => {
                            got.push((t0.elapsed().as_millis() as u64, len, if len >= 4 { (buf[3] & 15) as u16 } else { 99 }));
                            if opt.is_none() {
                                // the COOKIE option (code 10) of the reply's OPT record, found by the harness's walker
                                let w = dnswalk::walk(&buf[..len]);
                                for r in w.secs[2].iter().filter(|r| r.rtype == 41) {
                                    let d = &r.rdata;
                                    let mut i = 0;
                                    while i + 4 <= d.len() {
                                        let (c, l) = (u16::from_be_bytes([d[i], d[i + 1]]), u16::from_be_bytes([d[i + 2], d[i + 3]]) as usize);
                                        if c == 10 && i + 4 + l <= d.len() {
                                            opt = Some(d[i + 4..i + 4 + l].to_vec());
                                        }
                                        i += 4 + l;
                                    }
                                }
                            }
                        }
                        _ => break,
                    }
                }
                (got, opt)
            });
            for i in 0..n {
                let q = build_query(i as u16, true, false, false, name, 1, 1, Some((1232, false, cookie.clone().map(|c| vec![(10u16, c)]).unwrap_or_default())));
                let _ = sock.send_to(&q, dst).await;
                if i % 10 == 9 {
                    tokio::time::sleep(std::time::Duration::from_millis(5)).await;
                }
            }
            recv.await.unwrap_or_default()
        }
        let cc: Vec<u8> = vec![0xc1, 0x1e, 0x47, 0xc0, 0x0c, 0x1e, 0x00, 0x01];
        let owner: IpAddr = "127.0.40.50".parse().unwrap();
        let (first, issued) = burst(owner, dst, &short, Some(cc.clone()), 1).await;
        out.emit(json!({"ev":"cookie_issue","source":owner.to_string(),"replies":first.len(),"cookie_len":issued.as_ref().map(|c| c.len()).unwrap_or(0)}));
        if let Some(full) = issued.filter(|c| c.len() > 8) {
            let nflood = n.min(400);
            let (got, _) = burst(owner, dst, &long, Some(full.clone()), nflood).await;
            out.emit(json!({"ev":"cookie_flood","kind":"own","source":owner.to_string(),"sent":nflood,"answered":got.len(),"octets":got.iter().map(|g| g.1).sum::<usize>()}));
            let mut mangled = full.clone();
            let last = mangled.len() - 1;
            mangled[last] ^= 1;
            for (kind, src, cookie) in [("replayed", "127.0.40.51", full.clone()), ("mangled", "127.0.40.52", mangled), ("clientonly", "127.0.40.53", cc.clone())] {
                let src: IpAddr = src.parse().unwrap();
                let (got, _) = burst(src, dst, &long, Some(cookie), nflood).await;
                out.emit(json!({"ev":"cookie_flood","kind":kind,"source":src.to_string(),"sent":nflood,"answered":got.len(),"octets":got.iter().map(|g| g.1).sum::<usize>()}));
                // and as an ordinary burst for the bound
                out.emit(json!({"ev":"reset","source":src.to_string(),"sent":nflood,"source_ports":1}));
                for (ms, len, rcode) in &got {
                    out.emit(json!({"ev":"req","t":ms / 1000,"ms":ms,"cost":len,"pass":true,"outcome":"ok","deplete":"ok","rcode":rcode,"e2e":true}));
                }
            }
        }
        // the quiet source
        let src: IpAddr = "127.0.40.200".parse().unwrap();
        let sock = tokio::net::UdpSocket::bind(SocketAddr::new(src, 0)).await.expect("bind");
        let q = build_query(7, true, false, false, &short, 1, 1, None);
        let _ = sock.send_to(&q, dst).await;
        let mut buf = vec![0u8; 65536];
        let r = tokio::time::timeout(std::time::Duration::from_millis(2000), sock.recv_from(&mut buf)).await;
        out.emit(json!({"ev":"reset","source":src.to_string(),"sent":1}));
        match r {
            Ok(Ok((len, _))) => out.emit(json!({"ev":"req","t":0,"ms":0,"cost":len.min(200),"pass":true,"outcome":"ok","deplete":"ok","rcode":(buf[3] & 15),"e2e":true})),
            _ => out.emit(json!({"ev":"req","t":0,"ms":0,"cost":q.len(),"pass":false,"outcome":"ok","deplete":"ok","rcode":-1,"e2e":true})),
        }
        let np = PANICS.lock().unwrap().len();
        out.emit(json!({"ev":"endflood","panics":np}));
    });
    let n = out.finish();
    eprintln!("rig flood: {} events", n);
    std::process::exit(0);
}

/// `rig conf`: C19 at service level for DNS.  Each accepted configuration's routes and ACLs are
/// swapped into the live DNS service, which then answers queries for names under every kind of
/// route.  One `dns` event per configuration.
fn conf(args: &[String]) {
    let cases = read_ndjson(&arg(args, "--cases").expect("--cases"));
    let mut out = Trace::create(&arg(args, "--out").expect("--out"));
    setup_namespace();
    let rt = tokio::runtime::Builder::new_multi_thread().worker_threads(4).enable_all().build().unwrap();
    rt.block_on(async {
        let sh = Shared::new();
        start_upstreams(&sh, 2);
        let live = start_dns(OPEN_ACLS, &[]).await;
        for (ci, c) in cases.iter().enumerate() {
            let yaml = c["yaml"].as_str().unwrap_or("");
            let loaded = match guarded(|| erbium::config::verif_load_config_from_string(yaml)) {
                Ok(Ok(l)) => l,
                _ => continue, // judged at function level
            };
            out.emit(json!({"ev":"dnsstart","id":c["id"]}));
            out.flush();
            {
                let mut a = live.write().await;
                let mut b = loaded.write().await;
                std::mem::swap(&mut a.dns_routes, &mut b.dns_routes);
                std::mem::swap(&mut a.acls, &mut b.acls);
            }
            let mut hs = vec![];
            for (qi, (name, src, listener)) in [(vec!["www", "example"], "192.0.2.7", "v4"), (vec!["x", "invalid"], "192.0.2.7", "v4"), (vec!["a", "Corp", "EXAMPLE"], "2001:db8::7", "v6"),
                                                 (vec!["example", "com"], "192.0.2.7", "dual4"), (vec![], "192.0.2.7", "v4")].into_iter().enumerate() {
                let q = json!({"q": format!("c{}", qi), "listener": listener, "src": src, "name": name, "id": 100 + qi, "qtype": 1000 + (ci % 50000) as u64, "adv": 1232,
                               "proto": if qi == 3 { "tcp" } else { "udp" }, "wait_ms": 400, "linger_ms": 5});
                hs.push(tokio::spawn(client_query(sh.clone(), q)));
            }
            for h in hs {
                let _ = h.await;
            }
            let evs = sh.drain();
            let replies = evs.iter().filter(|e| e["ev"] == "crecv").count();
            let rcodes: Vec<Value> = evs.iter().filter(|e| e["ev"] == "crecv").map(|e| json!([e["q"], e["rcode"]])).collect();
            let np = {
                let mut p = PANICS.lock().unwrap();
                let n = p.len();
                let first = p.first().cloned().unwrap_or_default();
                p.clear();
                (n, first)
            };
            out.emit(json!({"ev":"dns","id":c["id"],"gen":c["gen"],"alive":true,"panics":np.0,"replies":replies,"rcodes":rcodes,"detail":np.1,"yaml": if np.0 > 0 { json!(yaml) } else { json!("") }}));
            out.flush();
        }
    });
    let n = out.finish();
    eprintln!("rig conf: {} cases, {} events", cases.len(), n);
    std::process::exit(0);
}

/// a valid query through the normal client; returns how many replies came back
async fn client_query_count(q: Value) -> usize {
    let sh = Shared::new();
    client_query(sh.clone(), q).await;
    sh.drain().iter().filter(|e| e["ev"] == "crecv").count()
}

pub fn main(args: &[String]) {
    let mut full = vec!["rig".to_string()];
    full.extend(args.iter().cloned());
    enter_namespace(&full);
    quiet_panics_keep_log();
    install_info_logger();
    match args.first().map(|s| s.as_str()) {
        Some("dns") => dns(&args[1..]),
        Some("http") | Some("full") => crate::righttp::http(&args[1..]),
        Some("hostile") => hostile(&args[1..]),
        Some("conf") => conf(&args[1..]),
        Some("flood") => flood(&args[1..]),
        _ => {
            eprintln!("usage: rig dns|http ...");
            std::process::exit(2)
        }
    }
}

/// panics inside spawned service tasks are data: count them, keep the message
pub static PANICS: Mutex<Vec<String>> = Mutex::new(Vec::new());
fn quiet_panics_keep_log() {
    std::panic::set_hook(Box::new(|info| {
        let msg = format!("{}", info);
        LAST_PANIC.with(|p| *p.borrow_mut() = msg.clone());
        if let Ok(mut v) = PANICS.lock() {
            if v.len() < 200 {
                v.push(msg);
            }
        }
    }));
}
