//! Drivers for the DHCP lease store: replay scenarios into the real
//! `pool::Pool` (level "pool") or the real `dhcp::handle_pkt` with
//! configurations loaded by the real YAML loader (level "pkt"), and record one
//! NDJSON event per step with the projected lease table.
//!
//! The harness never judges a property; it drives, observes and projects.
use crate::util::*;
use erbium::dhcp::{self, dhcppkt, pool};
use serde_json::{Value, json};
use std::collections::HashMap;
use std::net::Ipv4Addr;

const BASE: u32 = 0x0A00_0000; // 10.0.0.x  <->  address index x
pub const SERVERIP: Ipv4Addr = Ipv4Addr::new(10, 9, 0, 1);
pub const SERVERIP2: Ipv4Addr = Ipv4Addr::new(10, 9, 0, 2);
pub const FOREIGN: Ipv4Addr = Ipv4Addr::new(10, 77, 0, 1);
const NOPOLICY_IP: Ipv4Addr = Ipv4Addr::new(10, 8, 0, 1);

thread_local! {
    /// address index i (1-based) <-> 10.0.0.0 + AMAP[i-1]; empty = identity
    static AMAP: std::cell::RefCell<Vec<u32>> = const { std::cell::RefCell::new(Vec::new()) };
}
pub fn set_amap(v: Vec<u32>) {
    AMAP.with(|m| *m.borrow_mut() = v);
}
pub fn addr(x: i64) -> Ipv4Addr {
    let off = AMAP.with(|m| {
        let m = m.borrow();
        if m.is_empty() || x < 1 || x as usize > m.len() { x as u32 } else { m[x as usize - 1] }
    });
    Ipv4Addr::from(BASE + off)
}
pub fn idx(a: Ipv4Addr) -> i64 {
    let v = u32::from(a);
    if !(BASE..BASE + 0x100000).contains(&v) {
        return -1;
    }
    let off = v - BASE;
    AMAP.with(|m| {
        let m = m.borrow();
        if m.is_empty() { off as i64 } else { m.iter().position(|o| *o == off).map(|p| p as i64 + 1).unwrap_or(-1) }
    })
}

/// How client `c` identifies itself on the wire: (chaddr, optional client-id).
/// c%3==1: hardware address only; c%3==2: own hardware address and the
/// client-id 01 + the hardware address of client c-1 (a hardware-only
/// client): the two identities differ only in the type octet and are two
/// clients all the same -- a server that strips the type octet of a
/// client-id merges them; c%3==0: a client-id while SHARING the hardware
/// address of client 1 (the client-id must win).
pub fn client_wire(c: i64) -> (Vec<u8>, Option<Vec<u8>>) {
    let mac = |n: i64| vec![0x02, 0, 0, 0, (n >> 8) as u8, n as u8];
    match c % 3 {
        1 => (mac(c), None),
        2 => (mac(c), Some([vec![1u8], mac(c - 1)].concat())),
        _ => (mac(1), Some(format!("id-{}", c).into_bytes())),
    }
}
pub fn client_identity(c: i64, lvl: &str) -> Vec<u8> {
    if lvl == "pool" {
        return format!("client-{}", c).into_bytes();
    }
    let (mac, cid) = client_wire(c);
    cid.unwrap_or(mac)
}

pub struct Store {
    pub pool: Option<pool::Pool>,
    pub path: std::path::PathBuf,
    pub epoch: i64,
    pub shift: i64,
    pub ids: HashMap<Vec<u8>, i64>,
}

impl Store {
    pub fn now(&self) -> i64 {
        now_secs() - self.epoch + self.shift
    }
    fn model(&self, dbtime: i64) -> i64 {
        dbtime - self.epoch + self.shift
    }
    fn client_index(&self, id: &[u8]) -> i64 {
        *self.ids.get(id).unwrap_or(&999)
    }
    /// The lease table as the harness reads it itself (own SQL, not get_leases()).
    pub fn table(&self) -> Value {
        let p = self.pool.as_ref().expect("store open");
        let conn = p.verif_conn();
        let mut st = conn
            .prepare("SELECT address, clientid, start, expiry FROM leases ORDER BY address")
            .expect("prepare");
        let rows = st
            .query_map([], |r| {
                Ok((
                    r.get::<_, String>(0)?,
                    r.get::<_, Option<Vec<u8>>>(1)?,
                    r.get::<_, i64>(2)?,
                    r.get::<_, i64>(3)?,
                ))
            })
            .expect("query")
            .collect::<Result<Vec<_>, _>>()
            .expect("rows");
        Value::Array(
            rows.into_iter()
                .map(|(a, c, s, e)| {
                    let x = a.parse::<Ipv4Addr>().map(idx).unwrap_or(-1);
                    json!([x, self.client_index(&c.unwrap_or_default()), self.model(s), self.model(e)])
                })
                .collect(),
        )
    }
    pub fn shift_rows(&mut self, d: i64) {
        if d <= 0 {
            return;
        }
        let p = self.pool.as_ref().expect("store open");
        p.verif_conn()
            .execute("UPDATE leases SET start = start - ?1, expiry = expiry - ?1", rusqlite::params![d])
            .expect("shift");
        self.shift += d;
    }
    pub fn expiry_of(&self, x: i64) -> Option<i64> {
        let p = self.pool.as_ref().expect("store open");
        p.verif_conn()
            .query_row(
                "SELECT expiry FROM leases WHERE address = ?1",
                rusqlite::params![addr(x).to_string()],
                |r| r.get::<_, i64>(0),
            )
            .ok()
            .map(|e| self.model(e))
    }
}

thread_local! {
    /// `apply-lease-time` of the scenario's policy ("" = not configured): the reply must still carry the length of the
    /// lease that was recorded, within the bounds
    static PLT: std::cell::RefCell<String> = const { std::cell::RefCell::new(String::new()) };
}
pub fn set_policy_lease_time(v: &Value) {
    let s = match v {
        Value::Null => String::new(),
        Value::String(s) => s.clone(),
        x => x.to_string(),
    };
    PLT.with(|p| *p.borrow_mut() = s);
}

fn pool_set(p: &Value) -> pool::PoolAddresses {
    p.as_array().unwrap().iter().map(|x| addr(x.as_i64().unwrap())).collect()
}

/// YAML for "serve exactly the address set P on the interface 10.9.0.0/24":
/// one apply-range from min to max, holes carved out by reservations for
/// hardware addresses nobody uses.
pub fn yaml_for_pool(p: &[i64]) -> String {
    let mut s = String::from("dhcp-policies:\n  - match-subnet: 10.9.0.0/24\n");
    PLT.with(|p| {
        if !p.borrow().is_empty() {
            s.push_str(&format!("    apply-lease-time: {}\n", p.borrow()));
        }
    });
    if p.is_empty() {
        s.push_str("    apply-domain-name: example.org\n");
        return s;
    }
    let real: Vec<u32> = p.iter().map(|x| u32::from(addr(*x))).collect();
    let lo = *real.iter().min().unwrap();
    let hi = *real.iter().max().unwrap();
    s.push_str(&format!("    apply-range: {{start: {}, end: {}}}\n", Ipv4Addr::from(lo), Ipv4Addr::from(hi)));
    let holes: Vec<u32> = (lo..=hi).filter(|x| !real.contains(x)).collect();
    if !holes.is_empty() {
        s.push_str("    policies:\n");
        for h in holes {
            s.push_str(&format!(
                "      - {{ match-hardware-address: \"02:ff:ff:ff:{:02x}:{:02x}\", apply-address: {} }}\n",
                (h >> 8) & 0xff,
                h & 0xff,
                Ipv4Addr::from(h)
            ));
        }
    }
    s
}

pub struct PktCtx {
    cfgs: HashMap<Vec<i64>, erbium::config::SharedConfig>,
    rt: tokio::runtime::Runtime,
}

impl PktCtx {
    fn cfg(&mut self, p: &[i64]) -> erbium::config::SharedConfig {
        let mut key = p.to_vec();
        key.sort();
        key.dedup();
        // the cache is keyed by the real addresses (the index map differs between scenarios)
        let mut ckey: Vec<i64> = key.iter().map(|x| u32::from(addr(*x)) as i64).collect();
        ckey.push(PLT.with(|p| crate::dnswalk::digest(p.borrow().as_bytes())));
        if let Some(c) = self.cfgs.get(&ckey) {
            return c.clone();
        }
        let y = yaml_for_pool(&key);
        let c = erbium::config::verif_load_config_from_string(&y).unwrap_or_else(|e| {
            eprintln!("harness: generated config rejected: {}\n{}", e, y);
            std::process::exit(2)
        });
        self.cfgs.insert(ckey, c.clone());
        c
    }
}

fn run_msg_pool(st: &mut Store, step: &Value, minl: i64, maxl: i64) -> Value {
    let c = step["c"].as_i64().unwrap();
    let req = step["req"].as_i64().unwrap_or(0);
    let kind = step["kind"].as_str().unwrap_or("discover");
    let id = client_identity(c, "pool");
    st.ids.insert(id.clone(), c);
    let addrs = pool_set(&step["P"]);
    let t0 = st.now();
    let r = {
        let p = st.pool.as_mut().unwrap();
        guarded(|| {
            p.allocate_address(
                &id,
                if req > 0 { Some(addr(req)) } else { None },
                &addrs,
                std::time::Duration::from_secs(minl as u64),
                std::time::Duration::from_secs(maxl as u64),
                b"",
            )
        })
    };
    let t1 = st.now();
    let (res, y, l, how, err) = match &r {
        Ok(Ok(lease)) => ("ok", idx(lease.ip), lease.expire.as_secs() as i64, format!("{:?}", lease.lease_type), String::new()),
        Ok(Err(pool::Error::NoAssignableAddress)) => (if addrs.is_empty() { "nopool" } else { "noaddr" }, 0, -1, String::new(), String::new()),
        Ok(Err(e)) => ("err", 0, -1, String::new(), format!("{}", e)),
        Err(p) => ("panic", 0, -1, String::new(), p.clone()),
    };
    json!({"ev":"msg","lvl":"pool","kind":kind,"c":c,"req":req,"P":step["P"],"res":res,"y":y,"L":l,
           "minl":minl,"maxl":maxl,"t0":t0,"t1":t1,"mtype": if kind=="discover" {1} else {3},
           "sidp":false,"sidin":false,"echo":true,"rsid":true,"how":how,"err":err,"db":st.table()})
}

fn run_msg_pkt(st: &mut Store, ctx: &mut PktCtx, step: &Value) -> Value {
    let c = step["c"].as_i64().unwrap();
    let req = step["req"].as_i64().unwrap_or(0);
    let kind = step["kind"].as_str().unwrap_or("discover");
    let mtype = step["mtype"].as_i64().unwrap_or(match kind {
        "discover" => 1,
        "request" => 3,
        _ => 8,
    });
    let sid = step["sid"].as_i64().unwrap_or(0);
    let via_ciaddr = step["via"].as_str() == Some("ciaddr");
    let nopolicy = step["nopolicy"].as_bool().unwrap_or(false);
    let flags = step["flags"].as_i64().unwrap_or(0) as u16;
    let xid = step["xid"].as_i64().unwrap_or(0x1234_0000 + c) as u32;
    let giaddr = if step["relay"].as_bool().unwrap_or(false) { Ipv4Addr::new(10, 9, 0, 254) } else { Ipv4Addr::UNSPECIFIED };
    let p: Vec<i64> = step["P"].as_array().unwrap().iter().map(|x| x.as_i64().unwrap()).collect();
    let conf = ctx.cfg(&p);
    let (chaddr, cid) = client_wire(c);
    let id = client_identity(c, "pkt");
    st.ids.insert(id, c);

    let mut options = dhcppkt::DhcpOptions::default();
    if mtype >= 0 {
        options.other.insert(dhcppkt::OPTION_MSGTYPE, vec![mtype as u8]);
    }
    if let Some(cid) = &cid {
        options.other.insert(dhcppkt::OPTION_CLIENTID, cid.clone());
    }
    if req > 0 && !via_ciaddr {
        options.other.insert(dhcppkt::OPTION_ADDRESSREQUEST, addr(req).octets().to_vec());
    }
    let sidaddr = match sid {
        1 => Some(SERVERIP),
        2 => Some(FOREIGN),
        3 => Some(SERVERIP2),
        _ => None,
    };
    if let Some(s) = sidaddr {
        options.other.insert(dhcppkt::OPTION_SERVERID, s.octets().to_vec());
    }
    if let Some(w) = step["want"].as_u64() {
        options.other.insert(dhcppkt::OPTION_LEASETIME, (w as u32).to_be_bytes().to_vec());
    }
    if let Some(pl) = step["plist"].as_array() {
        options.other.insert(dhcppkt::OPTION_PARAMLIST, pl.iter().map(|x| x.as_u64().unwrap() as u8).collect());
    }
    if let Some(v) = step["vclass"].as_str() {
        options.other.insert(dhcppkt::OPTION_VENDOR_CLASS, v.as_bytes().to_vec());
    }
    if let Some(h) = step["hostname"].as_array() {
        options.other.insert(dhcppkt::OPTION_HOSTNAME, h.iter().map(|x| x.as_u64().unwrap() as u8).collect());
    }
    let serverids: std::collections::HashSet<Ipv4Addr> = [SERVERIP, SERVERIP2].into_iter().collect();
    let request = dhcp::DHCPRequest {
        pkt: dhcppkt::Dhcp {
            op: dhcppkt::OP_BOOTREQUEST,
            htype: dhcppkt::HWTYPE_ETHERNET,
            hlen: 6,
            hops: 0,
            xid,
            secs: 0,
            flags,
            ciaddr: if req > 0 && via_ciaddr { addr(req) } else { Ipv4Addr::UNSPECIFIED },
            yiaddr: Ipv4Addr::UNSPECIFIED,
            siaddr: Ipv4Addr::UNSPECIFIED,
            giaddr,
            chaddr: chaddr.clone(),
            sname: vec![],
            file: vec![],
            options,
        },
        serverip: if nopolicy { NOPOLICY_IP } else { SERVERIP },
        ifindex: 1,
        if_mtu: None,
        if_router: None,
    };
    let t0 = st.now();
    let r = {
        let pl = st.pool.as_mut().unwrap();
        let lockedconf = ctx.rt.block_on(conf.read());
        guarded(|| dhcp::handle_pkt(pl, &request, serverids.clone(), &lockedconf))
    };
    let t1 = st.now();
    let mut echo = true;
    let mut rsid = true;
    let mut rtype = -1;
    let (res, y, l, err) = match &r {
        Ok(Ok(reply)) => {
            echo = reply.xid == xid && reply.chaddr == chaddr && reply.giaddr == giaddr && reply.flags == flags;
            rsid = match reply.options.other.get(&dhcppkt::OPTION_SERVERID) {
                Some(v) if v.len() == 4 => {
                    let a = Ipv4Addr::new(v[0], v[1], v[2], v[3]);
                    a == request.serverip || serverids.contains(&a)
                }
                _ => false,
            };
            rtype = reply.options.other.get(&dhcppkt::OPTION_MSGTYPE).and_then(|v| v.first().copied()).map(|x| x as i64).unwrap_or(-1);
            let l = match reply.options.other.get(&dhcppkt::OPTION_LEASETIME) {
                Some(v) if v.len() == 4 => {
                    let x = u32::from_be_bytes([v[0], v[1], v[2], v[3]]) as i64;
                    if x > 2_000_000_000 { 2_000_000_000 } else { x }
                }
                Some(_) => -2,
                None => -1,
            };
            ("ok", idx(reply.yiaddr), l, String::new())
        }
        Ok(Err(dhcp::DhcpError::PoolError(pool::Error::NoAssignableAddress))) => ("noaddr", 0, -1, String::new()),
        Ok(Err(dhcp::DhcpError::NoLeasesConfigured)) => ("nopool", 0, -1, String::new()),
        Ok(Err(e @ dhcp::DhcpError::PoolError(_))) | Ok(Err(e @ dhcp::DhcpError::InternalError(_))) => ("err", 0, -1, format!("{}", e)),
        Ok(Err(e)) => ("ignored", 0, -1, format!("{}", e)),
        Err(p) => ("panic", 0, -1, p.clone()),
    };
    // the effective pool of this message, as the harness configured it
    let eff: Vec<i64> = if nopolicy { vec![] } else { p.clone() };
    json!({"ev":"msg","lvl":"pkt","kind": if mtype==1 {"discover"} else if mtype==3 {"request"} else {"other"},
           "c":c,"req":req,"P":eff,"res":res,"y":y,"L":l,
           "minl":pool::DEFAULT_MIN_LEASE.as_secs(),"maxl":pool::DEFAULT_MAX_LEASE.as_secs(),
           "t0":t0,"t1":t1,"mtype":mtype,"sidp":sidaddr.is_some(),"sidin":sidaddr.map(|s| serverids.contains(&s)).unwrap_or(false),
           "echo":echo,"rsid":rsid,"rtype":rtype,"err":err,"db":st.table()})
}

pub fn new_ctx() -> PktCtx {
    PktCtx {
        cfgs: HashMap::new(),
        rt: tokio::runtime::Builder::new_current_thread().enable_all().build().unwrap(),
    }
}

/// Replay one scenario into a fresh store; `restart_before` inserts a
/// close/reopen before the step with that index (restart-equivalence runs).
pub fn run_scenario(sc: &Value, n: usize, dbdir: &str, epoch: i64, ctx: &mut PktCtx, restart_before: Option<usize>) -> Vec<Value> {
    let mut out: Vec<Value> = Vec::new();
    let lvl = sc["lvl"].as_str().unwrap_or("pool").to_string();
    let u = sc["U"].as_i64().unwrap_or(4);
    let minl = sc["minl"].as_i64().unwrap_or(2);
    let maxl = sc["maxl"].as_i64().unwrap_or(10);
    let path = std::path::Path::new(dbdir).join(format!("leases-{}.sqlite", n));
    let _ = std::fs::remove_file(&path);
    let pool = pool::Pool::verif_open(&path).unwrap_or_else(|e| {
        eprintln!("cannot open fresh store: {}", e);
        std::process::exit(2)
    });
    set_amap(sc["amap"].as_array().map(|a| a.iter().map(|x| x.as_u64().unwrap() as u32).collect()).unwrap_or_default());
    set_policy_lease_time(&sc["plt"]);
    let mut st = Store { pool: Some(pool), path: path.clone(), epoch, shift: 0, ids: HashMap::new() };
    for c in 1..=64 {
        st.ids.insert(client_identity(c, &lvl), c);
    }
    out.push(json!({"ev":"reset","sc":sc["sc"],"lvl":lvl,"U":(1..=u).collect::<Vec<i64>>(),"t":st.now(),"db":[]}));
    let mut steps: Vec<Value> = sc["steps"].as_array().unwrap().clone();
    if let Some(k) = restart_before {
        steps.insert(k.min(steps.len()), json!({"k":"restart"}));
    }
    for step in steps.iter() {
        match step["k"].as_str().unwrap() {
            "msg" => {
                let e = if lvl == "pool" { run_msg_pool(&mut st, step, minl, maxl) } else { run_msg_pkt(&mut st, ctx, step) };
                out.push(e);
            }
            "tick" => {
                let d = step["d"].as_i64().unwrap();
                st.shift_rows(d);
                out.push(json!({"ev":"tick","d":d,"t":st.now()}));
            }
            "tickto" => {
                // advance the clock to expiry(x)+off, if that lies in the future
                let x = step["x"].as_i64().unwrap();
                let off = step["off"].as_i64().unwrap_or(0);
                let d = st.expiry_of(x).map(|e| e + off - st.now()).unwrap_or(0).max(0);
                st.shift_rows(d);
                out.push(json!({"ev":"tick","d":d,"t":st.now()}));
            }
            "restart" => {
                st.pool = None; // close
                let r = guarded(|| pool::Pool::verif_open(&st.path));
                match r {
                    Ok(Ok(p)) => {
                        st.pool = Some(p);
                        out.push(json!({"ev":"reopen","outcome":"ok","db":st.table()}));
                    }
                    Ok(Err(e)) => {
                        out.push(json!({"ev":"reopen","outcome":"err","err":format!("{}",e),"db":[]}));
                        break;
                    }
                    Err(p) => {
                        out.push(json!({"ev":"reopen","outcome":"panic","err":p,"db":[]}));
                        break;
                    }
                }
            }
            "metrics" => {
                let t0 = st.now();
                let r = {
                    let p = st.pool.as_mut().unwrap();
                    guarded(|| p.get_pool_metrics())
                };
                let t1 = st.now();
                let (outcome, a, e, err) = match r {
                    Ok(Ok((a, e))) => ("ok", a as i64, e as i64, String::new()),
                    Ok(Err(e)) => ("err", -1, -1, format!("{}", e)),
                    Err(p) => ("panic", -1, -1, p),
                };
                out.push(json!({"ev":"metrics","t0":t0,"t1":t1,"outcome":outcome,"active":a,"expired":e,"err":err}));
            }
            "list" => {
                let r = {
                    let p = st.pool.as_mut().unwrap();
                    guarded(|| p.get_leases())
                };
                let (outcome, entries) = match r {
                    Ok(Ok(v)) => (
                        "ok",
                        v.iter()
                            .map(|li| json!([idx(li.ip), st.client_index(&li.client_id), st.model(li.start as i64), st.model(li.expire as i64)]))
                            .collect::<Vec<_>>(),
                    ),
                    Ok(Err(_)) => ("err", vec![]),
                    Err(_) => ("panic", vec![]),
                };
                out.push(json!({"ev":"list","outcome":outcome,"entries":entries}));
            }
            k => {
                eprintln!("unknown step kind {}", k);
                std::process::exit(2)
            }
        }
    }
    // final table relative to the end of the run (for run-to-run comparison)
    if st.pool.is_some() {
        let now = st.now();
        let rel: Vec<Value> = st.table().as_array().unwrap().iter()
            .map(|r| json!([r[0], r[1], r[2].as_i64().unwrap() - now, r[3].as_i64().unwrap() - now])).collect();
        out.push(json!({"ev":"end","t":now,"rel":rel}));
    }
    drop(st);
    let _ = std::fs::remove_file(&path);
    out
}

pub fn main(args: &[String]) {
    let scen = read_ndjson(&arg(args, "--scenarios").expect("--scenarios"));
    let mut out = Trace::create(&arg(args, "--out").expect("--out"));
    let dbdir = arg(args, "--dbdir").expect("--dbdir");
    std::fs::create_dir_all(&dbdir).unwrap();
    quiet_panics();
    let epoch = now_secs();
    let mut ctx = new_ctx();
    for (n, sc) in scen.iter().enumerate() {
        for e in run_scenario(sc, n, &dbdir, epoch, &mut ctx, None) {
            out.emit(e);
        }
    }
    let n = out.finish();
    eprintln!("dhcp driver: {} scenarios, {} events", scen.len(), n);
}
