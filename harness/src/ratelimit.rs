//! C16 driver (function level): the real token bucket driven with a virtual
//! clock (hook re-export), and the real cookie validation with explicit keys
//! and with the server's live keys.
use crate::dnswalk::build_query;
use crate::util::*;
use erbium::dns::verif::{Clock, GenericTokenBucket};
use serde_json::{Value, json};
use std::sync::atomic::{AtomicU32, Ordering};

static NOW: AtomicU32 = AtomicU32::new(1_000_000);
struct VClock;
impl Clock for VClock {
    fn now() -> u32 {
        NOW.load(Ordering::SeqCst)
    }
}

fn bucket(args: &[String]) {
    let scen = read_ndjson(&arg(args, "--scenarios").expect("--scenarios"));
    let mut out = Trace::create(&arg(args, "--out").expect("--out"));
    quiet_panics();
    for (si, sc) in scen.iter().enumerate() {
        let mut b = GenericTokenBucket::new();
        NOW.store(1_000_000, Ordering::SeqCst);
        out.emit(json!({"ev":"reset","sc":si,"t":0}));
        for step in sc["steps"].as_array().unwrap() {
            let t = (NOW.load(Ordering::SeqCst) - 1_000_000) as i64;
            match step["op"].as_str().unwrap() {
                "adv" => {
                    NOW.fetch_add(step["d"].as_u64().unwrap() as u32, Ordering::SeqCst);
                    out.emit(json!({"ev":"adv","d":step["d"],"t":(NOW.load(Ordering::SeqCst) - 1_000_000)}));
                }
                "req" => {
                    // what IpRateLimiter::check does with one bucket: check, then deplete if granted
                    let cost = step["cost"].as_u64().unwrap() as u32;
                    let pass = guarded(|| b.check::<VClock>(cost));
                    match pass {
                        Ok(p) => {
                            let mut dep = "none";
                            if p {
                                dep = if guarded(|| b.deplete::<VClock>(cost)).is_ok() { "ok" } else { "panic" };
                            }
                            out.emit(json!({"ev":"req","cost":cost,"t":t,"outcome":"ok","pass":p,"deplete":dep}));
                        }
                        Err(e) => out.emit(json!({"ev":"req","cost":cost,"t":t,"outcome":"panic","pass":false,"deplete":"none","err":e})),
                    }
                }
                _ => {}
            }
        }
    }
    let n = out.finish();
    eprintln!("ratelimit bucket: {} events", n);
}

fn msg_with_cookie(cc: &[u8; 8], server: Option<&[u8]>, caddr: std::net::IpAddr, saddr: std::net::IpAddr) -> erbium::dns::DnsMessage {
    let mut data = cc.to_vec();
    if let Some(s) = server {
        data.extend(s);
    }
    let b = build_query(77, true, false, false, &[b"refused".to_vec(), b"example".to_vec()], 1, 1, Some((1232, false, vec![(10, data)])));
    erbium::dns::DnsMessage {
        in_query: erbium::dns::verif::parse(&b).expect("query"),
        in_size: b.len(),
        local_ip: saddr,
        remote_addr: std::net::SocketAddr::new(caddr, 40000).into(),
        protocol: erbium::dns::Protocol::Udp,
    }
}

fn cookies(args: &[String]) {
    let mut out = Trace::create(&arg(args, "--out").expect("--out"));
    let mut rng = Rng::new(arg_u64(args, "--seed", 1));
    let n = arg_u64(args, "--n", 300);
    quiet_panics();
    let keys: Vec<[u8; 8]> = (0..4).map(|_| rng.bytes(8).try_into().unwrap()).collect();
    let ccs: Vec<[u8; 8]> = (0..3).map(|_| rng.bytes(8).try_into().unwrap()).collect();
    let addrs: Vec<std::net::IpAddr> = vec!["192.0.2.1".parse().unwrap(), "192.0.2.2".parse().unwrap(), "2001:db8::1".parse().unwrap(), "::ffff:192.0.2.1".parse().unwrap()];
    let rt = tokio::runtime::Builder::new_current_thread().enable_all().build().unwrap();
    for i in 0..n {
        // a cookie issued under key `ik` for (cc, caddr, saddr) ...
        let (ik, icc, ica, isa) = (rng.below(4) as usize, rng.below(3) as usize, rng.below(4) as usize, rng.below(4) as usize);
        let issued_to = msg_with_cookie(&ccs[icc], None, addrs[ica], addrs[isa]);
        let server = match guarded(|| erbium::dns::verif::server_cookie(&issued_to, &ccs[icc], &keys[ik])) {
            Ok(s) => s,
            Err(_) => continue,
        };
        // ... presented by (cc', caddr', saddr') while the server holds (cur, prev)
        let same = i % 3 == 0;
        let (pcc, pca, psa) = if same { (icc, ica, isa) } else { (rng.below(3) as usize, rng.below(4) as usize, rng.below(4) as usize) };
        let (cur, prev) = (rng.below(4) as usize, rng.below(4) as usize);
        let mangle = *rng.pick(&["none", "none", "none", "trunc", "flip", "absent", "extend"]);
        let presented: Option<Vec<u8>> = match mangle {
            "trunc" => Some(server[..8 + rng.below(20) as usize].to_vec()),
            "flip" => {
                let mut s = server.clone();
                let k = rng.below(s.len() as u64) as usize;
                s[k] ^= 1 << rng.below(8);
                Some(s)
            }
            "absent" => None,
            "extend" => Some([server.clone(), vec![0]].concat()),
            _ => Some(server.clone()),
        };
        let m = msg_with_cookie(&ccs[pcc], presented.as_deref(), addrs[pca], addrs[psa]);
        let status = guarded(|| erbium::dns::verif::cookie_status(&m, &keys[cur], &keys[prev]));
        out.emit(json!({"ev":"cookie","issued":[ik, icc, ica, isa],"presented":[pcc, pca, psa],"cur":cur,"prev":prev,"mangle":mangle,
                        "len":presented.as_ref().map(|p| p.len()).unwrap_or(0),
                        "status": status.clone().unwrap_or("panic"), "outcome": if status.is_ok() {"ok"} else {"panic"}}));
    }
    // live keys: cookies the running server issues validate; forgeries under guessable keys do not
    for i in 0..20 {
        let (cc, ca, sa) = (&ccs[i % 3], addrs[i % 4], addrs[(i / 4) % 4]);
        let m0 = msg_with_cookie(cc, None, ca, sa);
        let live = rt.block_on(erbium::dns::verif::server_cookie_live(&m0, cc));
        let ok = rt.block_on(erbium::dns::verif::cookie_status_live(&msg_with_cookie(cc, Some(&live), ca, sa)));
        out.emit(json!({"ev":"cookie_live","kind":"issued_by_this_server","status":ok}));
        let other = rt.block_on(erbium::dns::verif::cookie_status_live(&msg_with_cookie(cc, Some(&live), addrs[(i + 1) % 4], sa)));
        out.emit(json!({"ev":"cookie_live","kind":"replayed_from_other_address","status":other}));
        for (name, key) in [("zero_key", [0u8; 8]), ("ones_key", [0xffu8; 8]), ("ascii_key", *b"erbium00")] {
            let forged = erbium::dns::verif::server_cookie(&m0, cc, &key);
            let st = rt.block_on(erbium::dns::verif::cookie_status_live(&msg_with_cookie(cc, Some(&forged), ca, sa)));
            out.emit(json!({"ev":"cookie_live","kind":format!("forged_{}", name),"status":st}));
        }
    }
    let lines = out.finish();
    eprintln!("ratelimit cookies: {} events", lines);
}

pub fn main(args: &[String]) {
    match args.first().map(|s| s.as_str()) {
        Some("bucket") => bucket(&args[1..]),
        Some("cookies") => cookies(&args[1..]),
        _ => {
            eprintln!("usage: ratelimit bucket|cookies ...");
            std::process::exit(2)
        }
    }
}

#[allow(dead_code)]
fn unused(_: Value) {}
