//! C17 driver: interface configurations rendered to YAML, loaded by the real
//! loader, built and serialised by the real code (hook radv::verif_build_ra),
//! decoded by the harness's own decoder written from RFC 4861 (header, SLLA,
//! MTU, prefix information), RFC 8106 (RDNSS, DNSSL), RFC 8781 (PREF64) and
//! RFC 8910 (captive portal).
use crate::util::*;
use serde_json::{Value, json};

fn pair(x: u64) -> Value {
    json!([x >> 16, x & 0xffff])
}
fn ip6(v: &Value) -> std::net::Ipv6Addr {
    let o: Vec<u8> = v.as_array().unwrap().iter().map(|x| x.as_u64().unwrap() as u8).collect();
    let a: [u8; 16] = o.try_into().unwrap();
    std::net::Ipv6Addr::from(a)
}
fn dur(v: &Value) -> String {
    // durations are [hi16, lo16] seconds
    format!("{}", (v[0].as_u64().unwrap() << 16) + v[1].as_u64().unwrap())
}
fn st(v: &Value) -> &str {
    v["s"].as_str().unwrap_or("absent")
}
fn addr_yaml(a: &Value) -> String {
    match a["k"].as_str().unwrap() {
        "self6" => "$self6".to_string(),
        "self4" => "$self4".to_string(),
        "v4" => {
            let o: Vec<u64> = a["a"].as_array().unwrap().iter().map(|x| x.as_u64().unwrap()).collect();
            format!("{}.{}.{}.{}", o[0], o[1], o[2], o[3])
        }
        _ => format!("\"{}\"", ip6(&a["a"])),
    }
}
fn tri_kv(f: &Value, key: &str, val: impl Fn(&Value) -> String, out: &mut Vec<String>) {
    match st(f) {
        "null" => out.push(format!("{}: null", key)),
        "val" => out.push(format!("{}: {}", key, val(&f["v"]))),
        _ => {}
    }
}

pub fn render(cfg: &Value) -> String {
    let mut s = String::new();
    let top = &cfg["top"];
    let mut t = vec![];
    tri_kv(&top["dns"], "dns-servers", |v| format!("[{}]", v.as_array().unwrap().iter().map(addr_yaml).collect::<Vec<_>>().join(", ")), &mut t);
    tri_kv(&top["search"], "dns-search", |v| format!("[{}]", v.as_array().unwrap().iter().map(|d| d.as_str().unwrap().to_string()).collect::<Vec<_>>().join(", ")), &mut t);
    tri_kv(&top["portal"], "captive-portal", |v| format!("\"{}\"", v.as_str().unwrap()), &mut t);
    for l in t {
        s.push_str(&l);
        s.push('\n');
    }
    let i = &cfg["if"];
    let mut f: Vec<String> = vec![];
    tri_kv(&i["hop"], "hop-limit", |v| v.to_string(), &mut f);
    tri_kv(&i["managed"], "managed", |v| v.to_string(), &mut f);
    tri_kv(&i["other"], "other", |v| v.to_string(), &mut f);
    tri_kv(&i["lifetime"], "lifetime", dur, &mut f);
    tri_kv(&i["reachable"], "reachable", dur, &mut f);
    tri_kv(&i["retransmit"], "retransmit", dur, &mut f);
    tri_kv(&i["mtu"], "mtu", |v| v.to_string(), &mut f);
    tri_kv(&i["portal"], "captive-portal", |v| format!("\"{}\"", v.as_str().unwrap()), &mut f);
    let ps = i["prefixes"].as_array().unwrap();
    if !ps.is_empty() {
        let items: Vec<String> = ps.iter().map(|p| {
            let mut g = vec![format!("prefix: \"{}/{}\"", ip6(&p["prefix"]), p["len"])];
            tri_kv(&p["onlink"], "on-link", |v| v.to_string(), &mut g);
            tri_kv(&p["autonomous"], "autonomous", |v| v.to_string(), &mut g);
            tri_kv(&p["valid"], "valid", dur, &mut g);
            tri_kv(&p["preferred"], "preferred", dur, &mut g);
            format!("{{{}}}", g.join(", "))
        }).collect();
        f.push(format!("prefixes: [{}]", items.join(", ")));
    }
    if st(&i["dns"]) == "val" {
        let mut g = vec![];
        tri_kv(&i["dns"]["addresses"], "addresses", |v| format!("[{}]", v.as_array().unwrap().iter().map(addr_yaml).collect::<Vec<_>>().join(", ")), &mut g);
        tri_kv(&i["dns"]["lifetime"], "lifetime", dur, &mut g);
        f.push(format!("dns-servers: {{{}}}", g.join(", ")));
    }
    if st(&i["search"]) == "val" {
        let mut g = vec![];
        tri_kv(&i["search"]["domains"], "domains", |v| format!("[{}]", v.as_array().unwrap().iter().map(|x| x.as_str().unwrap().to_string()).collect::<Vec<_>>().join(", ")), &mut g);
        tri_kv(&i["search"]["lifetime"], "lifetime", dur, &mut g);
        f.push(format!("dns-search: {{{}}}", g.join(", ")));
    }
    if st(&i["pref64"]) == "val" {
        let p = &i["pref64"];
        let mut g = vec![format!("prefix: \"{}/{}\"", ip6(&p["prefix"]), p["len"])];
        tri_kv(&p["lifetime"], "lifetime", dur, &mut g);
        f.push(format!("pref64: {{{}}}", g.join(", ")));
    }
    s.push_str("router-advertisements:\n");
    if f.is_empty() {
        s.push_str("  eth0: null\n");
    } else {
        s.push_str("  eth0:\n");
        for l in f {
            s.push_str(&format!("    {}\n", l));
        }
    }
    s
}

fn digest(b: &[u8]) -> i64 {
    let mut h: u64 = 0xcbf29ce484222325;
    for x in b {
        h ^= *x as u64;
        h = h.wrapping_mul(0x100000001b3);
    }
    (h % (1 << 30)) as i64
}
pub fn domain_digest(d: &str) -> i64 {
    digest(d.trim_end_matches('.').to_ascii_lowercase().as_bytes())
}

/// RFC decoder of a router advertisement
pub fn decode(b: &[u8]) -> Value {
    if b.len() < 16 || b[0] != 134 {
        return json!({"ok":false,"why":"not a router advertisement","opts":[]});
    }
    let be16 = |o: usize| u16::from_be_bytes([b[o], b[o + 1]]) as u64;
    let be32 = |o: usize| u32::from_be_bytes([b[o], b[o + 1], b[o + 2], b[o + 3]]) as u64;
    let mut opts = vec![];
    let mut ok = true;
    let mut why = String::new();
    let mut o = 16;
    while o < b.len() {
        if o + 2 > b.len() {
            ok = false;
            why = "option header cut".into();
            break;
        }
        let t = b[o];
        let l = b[o + 1] as usize * 8;
        if l == 0 || o + l > b.len() {
            ok = false;
            why = format!("option {} at {} claims {} octets, {} remain", t, o, l, b.len() - o);
            break;
        }
        let body = &b[o..o + l];
        let mut e = json!({"t":t,"len8":l / 8});
        match t {
            1 => {
                e["ll"] = json!(body[2..].to_vec());
            }
            5 if l == 8 => {
                e["resv_zero"] = json!(body[2] == 0 && body[3] == 0);
                e["mtu"] = pair(be32(o + 4));
            }
            3 if l == 32 => {
                let plen = body[2];
                e["plen"] = json!(plen);
                e["onlink"] = json!(body[3] & 0x80 != 0);
                e["autonomous"] = json!(body[3] & 0x40 != 0);
                e["valid"] = pair(be32(o + 4));
                e["preferred"] = pair(be32(o + 8));
                e["resv_zero"] = json!(body[3] & 0x3f == 0 && body[12..16] == [0, 0, 0, 0]);
                e["prefix"] = json!(body[16..32].to_vec());
                // bits beyond the prefix length
                let mut clean = true;
                for bit in (plen as usize)..128 {
                    if body[16 + bit / 8] & (0x80 >> (bit % 8)) != 0 {
                        clean = false;
                    }
                }
                e["hostbits_zero"] = json!(clean);
            }
            25 => {
                e["resv_zero"] = json!(body[2] == 0 && body[3] == 0);
                e["lifetime"] = pair(be32(o + 4));
                e["wellformed"] = json!(l >= 24 && (l - 8) % 16 == 0);
                e["servers"] = json!(body[8..].chunks(16).filter(|c| c.len() == 16).map(|c| c.to_vec()).collect::<Vec<_>>());
            }
            31 => {
                e["resv_zero"] = json!(body[2] == 0 && body[3] == 0);
                e["lifetime"] = pair(be32(o + 4));
                // domain names, RFC 1035 uncompressed, zero padded
                let mut names = vec![];
                let mut p = 8;
                let mut wf = l >= 16;
                while p < l {
                    if body[p] == 0 {
                        p += 1;
                        continue; // padding
                    }
                    let mut labels: Vec<String> = vec![];
                    loop {
                        if p >= l {
                            wf = false;
                            break;
                        }
                        let n = body[p] as usize;
                        p += 1;
                        if n == 0 {
                            break;
                        }
                        if n > 63 || p + n > l {
                            wf = false;
                            break;
                        }
                        labels.push(String::from_utf8_lossy(&body[p..p + n]).to_string());
                        p += n;
                    }
                    if !wf {
                        break;
                    }
                    names.push(domain_digest(&labels.join(".")));
                }
                e["wellformed"] = json!(wf);
                e["domains"] = json!(names);
            }
            38 if l == 16 => {
                let w = be16(o + 2);
                e["scaled"] = json!(w >> 3);
                e["plc"] = json!(w & 7);
                e["prefix96"] = json!(body[4..16].to_vec());
            }
            37 => {
                let url: Vec<u8> = body[2..].iter().copied().take_while(|c| *c != 0).collect();
                e["url"] = json!(digest(&url));
                e["urllen"] = json!(url.len());
                e["pad_zero"] = json!(body[2 + url.len()..].iter().all(|c| *c == 0));
            }
            _ => {
                e["unknown"] = json!(true);
            }
        }
        opts.push(e);
        o += l;
    }
    json!({"ok":ok,"why":why,"size":b.len(),"hop":b[4],"managed":b[5] & 0x80 != 0,"other":b[5] & 0x40 != 0,"flags_resv_zero":b[5] & 0x3f == 0,
           "lifetime":be16(6),"reachable":pair(be32(8)),"retransmit":pair(be32(12)),"opts":opts})
}

pub fn main(args: &[String]) {
    let cases = read_ndjson(&arg(args, "--cases").expect("--cases"));
    let mut out = Trace::create(&arg(args, "--out").expect("--out"));
    quiet_panics();
    let rt = tokio::runtime::Builder::new_current_thread().enable_all().build().unwrap();
    for cfg in &cases {
        let yaml = render(cfg);
        let env = &cfg["env"];
        let ll: Option<[u8; 6]> = env["ll"]["v"].as_array().filter(|_| env["ll"]["s"] == "val").map(|a| {
            let v: Vec<u8> = a.iter().map(|x| x.as_u64().unwrap() as u8).collect();
            v.try_into().unwrap()
        });
        let ifmtu = env["ifmtu"].as_u64().filter(|m| *m != 0).map(|m| m as u32);
        let self6 = ip6(&env["self6"]);
        let deflife = std::time::Duration::from_secs((env["deflife"][0].as_u64().unwrap() << 16) + env["deflife"][1].as_u64().unwrap());
        let loaded = guarded(|| erbium::config::verif_load_config_from_string(&yaml));
        let ev = match loaded {
            Err(p) => json!({"ev":"ra","cfg":cfg,"load":"panic","err":p,"outcome":"none","ra":{"ok":false,"opts":[]}}),
            Ok(Err(e)) => json!({"ev":"ra","cfg":cfg,"load":"rejected","err":format!("{}", e),"outcome":"none","ra":{"ok":false,"opts":[]}}),
            Ok(Ok(conf)) => {
                let locked = rt.block_on(conf.read());
                match guarded(|| erbium::radv::verif_build_ra(&locked, "eth0", ll, ifmtu, self6, deflife)) {
                    Ok(Some(bytes)) => json!({"ev":"ra","cfg":cfg,"load":"ok","outcome":"ok","ra":decode(&bytes)}),
                    Ok(None) => json!({"ev":"ra","cfg":cfg,"load":"ok","outcome":"nointerface","ra":{"ok":false,"opts":[]}}),
                    Err(p) => json!({"ev":"ra","cfg":cfg,"load":"ok","outcome":"panic","err":p,"ra":{"ok":false,"opts":[]}}),
                }
            }
        };
        out.emit(ev);
    }
    let n = out.finish();
    eprintln!("radv: {} events", n);
}
