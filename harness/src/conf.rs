//! C19 driver: configuration texts (cases enumerated by TLC from
//! spec/ConfGrammar.tla and rendered by lib/conf_base.py, the manual's and the
//! shipped examples, byte-level mutations) are loaded by the real loader in a
//! child process; every accepted configuration is then used to serve a battery
//! of DHCP requests, router advertisements and ACL decisions.  Panics, aborts
//! (stack overflow, allocation failure under an address-space limit) and hangs
//! are outcomes.
use crate::util::*;
use serde_json::{Value, json};

fn dhcp_request(msgtype: u8, chaddr: [u8; 6], hostname: Option<&str>, reqip: Option<[u8; 4]>, ciaddr: [u8; 4], giaddr: [u8; 4]) -> Vec<u8> {
    let mut d = vec![1u8, 1, 6, 0, 0x12, 0x34, 0x56, 0x78, 0, 0, 0x80, 0];
    d.extend(ciaddr);
    d.extend([0u8; 8]);
    d.extend(giaddr);
    d.extend(chaddr);
    d.extend([0u8; 10]);
    d.extend([0u8; 192]);
    d.extend([0x63, 0x82, 0x53, 0x63]);
    d.extend([53, 1, msgtype]);
    d.extend([61, 7, 1]);
    d.extend(chaddr);
    if let Some(h) = hostname {
        d.push(12);
        d.push(h.len() as u8);
        d.extend(h.as_bytes());
    }
    d.extend([60, 1, b'x']);
    if let Some(ip) = reqip {
        d.extend([50, 4]);
        d.extend(ip);
    }
    // ask for everything
    d.push(55);
    d.push(254);
    d.extend(1..=254u8);
    d.push(255);
    d
}

struct State {
    rt: tokio::runtime::Runtime,
    conf: Option<erbium::config::SharedConfig>,
    pool: erbium::dhcp::pool::Pool,
    slow: bool,
}

impl State {
    fn load(&mut self, yaml: &str) -> Value {
        self.conf = None;
        self.slow = false;
        self.pool = erbium::dhcp::pool::Pool::new_in_memory().expect("pool");
        match guarded(|| erbium::config::verif_load_config_from_string(yaml)) {
            Ok(Ok(c)) => {
                self.conf = Some(c);
                json!({"outcome":"ok","detail":""})
            }
            Ok(Err(e)) => {
                // the error must be printable: that is what the operator gets to see
                match guarded(|| format!("{}", e)) {
                    Ok(m) => json!({"outcome":"err","detail":m.chars().take(200).collect::<String>(),"msglen":m.len()}),
                    Err(p) => json!({"outcome":"panic","detail":p}),
                }
            }
            Err(p) => json!({"outcome":"panic","detail":p}),
        }
    }

    /// One step of the serving battery with the loaded configuration; `i` counts up from 0 until the
    /// reply says "done".  One request per step, so that the parent's time budget applies to a single request.
    fn serve(&mut self, i: usize) -> Value {
        let conf = match &self.conf {
            Some(c) => c.clone(),
            None => return json!({"outcome":"ok","detail":"","done":true}),
        };
        let locked = self.rt.block_on(conf.read());
        const SERVERS: [&str; 5] = ["192.0.2.1", "198.51.100.1", "203.0.113.1", "10.9.9.9", "0.0.0.0"];
        const CLIENTS: [[u8; 6]; 2] = [[2u8, 0, 0, 0, 0, 1], [2, 0, 0, 0, 0, 0x77]];
        type Shape = (u8, Option<&'static str>, Option<[u8; 4]>, [u8; 4], [u8; 4]);
        const SHAPES: [Shape; 6] = [(1u8, None, None, [0u8; 4], [0u8; 4]), (1, Some("printer"), Some([192u8, 0, 2, 100]), [0; 4], [0; 4]),
                                    (3, Some("printer"), Some([192, 0, 2, 100]), [0; 4], [0; 4]), (3, None, None, [192, 0, 2, 100], [0; 4]),
                                    (8, None, None, [192, 0, 2, 9], [0; 4]), (1, None, None, [0; 4], [198, 51, 100, 1])];
        let ndhcp = if self.slow { 6 } else { SERVERS.len() * CLIENTS.len() * SHAPES.len() };
        if i < ndhcp {
            // ---- DHCP
            let pool = &mut self.pool;
            let t0 = std::time::Instant::now();
            let r = guarded(|| {
                use erbium::dhcp;
                let (serverip, chaddr, (mt, host, req, ci, gi)) = (SERVERS[i % 5], CLIENTS[(i / 5) % 2], SHAPES[(i / 10) % 6]);
                let bytes = dhcp_request(mt, chaddr, host, req, ci, gi);
                let pkt = dhcp::dhcppkt::parse(&bytes).expect("harness request parses");
                let request = dhcp::DHCPRequest { pkt, serverip: serverip.parse().unwrap(), ifindex: 1, if_mtu: Some(1500), if_router: Some("192.0.2.254".parse().unwrap()) };
                if let Ok(reply) = dhcp::handle_pkt(pool, &request, Default::default(), &locked) {
                    let _ = reply.serialise();
                    for (k, v) in reply.options.other.iter() {
                        let _ = format!("{k}({})", k.get_type().and_then(|x| x.decode(v)).map(|x| format!("{}", x)).unwrap_or_default());
                    }
                }
            });
            if i == 0 && t0.elapsed() > std::time::Duration::from_millis(400) {
                self.slow = true; // a very large pool: a reduced battery keeps the run time bounded
            }
            return match r {
                Ok(()) => json!({"outcome":"ok","detail":"","part":"dhcp","done":false}),
                Err(p) => json!({"outcome":"panic","detail":p,"part":"dhcp","done":true}),
            };
        }
        let i = i - ndhcp;
        // ---- router advertisements: every configured interface, and one that is not configured
        let names: Vec<String> = locked.ra.interfaces.iter().map(|i| i.name.clone()).chain(["other0".to_string()]).collect();
        if i < names.len() * 2 {
            let name = &names[i / 2];
            let (ll, mtu, self6, life) = [(Some([2u8, 0, 0, 0, 0, 9]), Some(1500u32), "fe80::1", 3600u64), (None, None, "2001:db8::1", 0)][i % 2];
            let r = guarded(|| erbium::radv::verif_build_ra(&locked, name, ll, mtu, self6.parse().unwrap(), std::time::Duration::from_secs(life)));
            return match r {
                Ok(_) => json!({"outcome":"ok","detail":"","part":"radv","done":false}),
                Err(p) => json!({"outcome":"panic","detail":p,"part":"radv","done":true}),
            };
        }
        // ---- access control decisions
        let r = guarded(|| {
            use erbium::acl;
            use erbium_net::addr::ToNetAddr as _;
            let clients: Vec<erbium_net::addr::NetAddr> = vec![
                std::net::SocketAddr::new("192.0.2.7".parse().unwrap(), 4000).into(),
                std::net::SocketAddr::new("2001:db8::7".parse().unwrap(), 4000).into(),
                std::net::SocketAddr::new("127.0.0.1".parse().unwrap(), 4000).into(),
                std::net::SocketAddr::new("::1".parse().unwrap(), 4000).into(),
                std::net::SocketAddr::new("::ffff:192.0.2.7".parse().unwrap(), 4000).into(),
                std::net::SocketAddr::new("255.255.255.255".parse().unwrap(), 4000).into(),
                erbium_net::addr::UnixAddr::new("/run/verif-client").unwrap().to_net_addr(),
            ];
            for c in clients {
                let attrs = acl::Attributes { addr: c };
                for pt in [acl::PermissionType::DnsRecursion, acl::PermissionType::Http, acl::PermissionType::HttpMetrics, acl::PermissionType::HttpLeases] {
                    let _ = acl::require_permission(&locked.acls, &attrs, pt);
                }
            }
            let _ = format!("{:?} {:?} {:?}", locked.listeners, locked.dns_listeners, locked.dns_routes);
        });
        match r {
            Ok(()) => json!({"outcome":"ok","detail":"","part":"acl","done":true}),
            Err(p) => json!({"outcome":"panic","detail":p,"part":"acl","done":true}),
        }
    }
}

pub fn child_main(_args: &[String]) {
    use std::io::{BufRead, Write};
    quiet_panics();
    install_info_logger();
    let rt = tokio::runtime::Builder::new_current_thread().enable_all().build().unwrap();
    let mut st = State { rt, conf: None, pool: erbium::dhcp::pool::Pool::new_in_memory().expect("pool"), slow: false };
    let stdin = std::io::stdin();
    let stdout = std::io::stdout();
    for line in stdin.lock().lines() {
        let line = match line {
            Ok(l) => l,
            Err(_) => break,
        };
        let mut it = line.split(' ');
        let v = match it.next().unwrap_or("") {
            "load" => {
                let y = String::from_utf8_lossy(&unhex(it.next().unwrap_or(""))).to_string();
                st.load(&y)
            }
            _ => st.serve(it.next().and_then(|x| x.parse().ok()).unwrap_or(0)),
        };
        let mut out = stdout.lock();
        let _ = writeln!(out, "{}", v);
        let _ = out.flush();
    }
}

/// cases: {"id":..., "yaml": text, "gen": {...}}; events: load / serve
pub fn main(args: &[String]) {
    let cases = read_ndjson(&arg(args, "--cases").expect("--cases"));
    let outp = arg(args, "--out").expect("--out");
    let mut out = Trace::create(&outp);
    // 3 GiB of address space and 25 s per step: runaway expansion of an accepted configuration shows as abort / hang
    let mut w = Worker::spawn("conf-child", &format!("{}.child-stderr", outp), arg_u64(args, "--timeout", 25), arg_u64(args, "--mem-kb", 3 * 1024 * 1024));
    let mut stuck = 0;
    for c in &cases {
        if stuck >= 3 {
            // every further hang costs a full time budget: stop here, the cases not run are reported as skipped
            out.emit(json!({"ev":"skipped","id":c["id"]}));
            continue;
        }
        let yaml = c["yaml"].as_str().unwrap_or("");
        let t0 = std::time::Instant::now();
        let r = w.call(&format!("load {}", hex(yaml.as_bytes())));
        let lo = r["outcome"].as_str().unwrap_or("garbled").to_string();
        out.emit(json!({"ev":"load","id":c["id"],"gen":c["gen"],"outcome":lo,"detail":r["detail"],"msglen":r["msglen"].as_u64().unwrap_or(0),"ms":t0.elapsed().as_millis() as u64,
                        "yaml": if lo != "ok" && lo != "err" { json!(yaml) } else { json!("") }}));
        if lo == "hang" {
            stuck += 1;
        }
        if lo == "ok" {
            let mut i = 0usize;
            let (so, r) = loop {
                let r = w.call(&format!("serve {}", i));
                let so = r["outcome"].as_str().unwrap_or("garbled").to_string();
                i += 1;
                if so != "ok" || r["done"].as_bool().unwrap_or(true) || i > 500 {
                    break (so, r);
                }
            };
            if so == "hang" {
                stuck += 1;
            }
            out.emit(json!({"ev":"serve","id":c["id"],"gen":c["gen"],"outcome":so,"detail":r["detail"],"part":r["part"].as_str().unwrap_or("process"),"n":i,"ms":t0.elapsed().as_millis() as u64,
                            "yaml": if so != "ok" { json!(yaml) } else { json!("") }}));
        }
    }
    let _ = w.child.kill();
    let n = out.finish();
    eprintln!("conf: {} events, {} child restarts", n, w.restarts);
}
